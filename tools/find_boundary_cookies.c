/* Workload-generation helper (NOT an oracle): brute-force TCP 4-tuples whose SYN cookie is 0x00000000 or 0xFFFFFFFF
 * under a given key, assuming the cookie is the low 32 bits of SipHash-2-4(key; src, dst, sport, dport) fed the way
 * Rust's Hasher::write_u32/u16/u128 do (native-endian integers).  The checks never trust this assumption: every
 * witness is re-validated at run time by probing a SYN and reading the cookie from the SYN-ACK; if the responder's
 * cookie function changes, the witnesses simply stop applying and are skipped (reported in the evidence).
 *
 *   gcc -O2 -o /tmp/fbc tools/find_boundary_cookies.c && /tmp/fbc <key0hex> <key1hex>
 */
#include <stdint.h>
#include <stdio.h>
#include <stdlib.h>
#include <string.h>

#define ROTL(x, b) (uint64_t)(((x) << (b)) | ((x) >> (64 - (b))))
#define SIPROUND do { v0 += v1; v1 = ROTL(v1, 13); v1 ^= v0; v0 = ROTL(v0, 32); v2 += v3; v3 = ROTL(v3, 16); v3 ^= v2; \
    v0 += v3; v3 = ROTL(v3, 21); v3 ^= v0; v2 += v1; v1 = ROTL(v1, 17); v1 ^= v2; v2 = ROTL(v2, 32); } while (0)

static uint64_t siphash24(const uint8_t *in, size_t inlen, uint64_t k0, uint64_t k1) {
    uint64_t v0 = 0x736f6d6570736575ULL ^ k0, v1 = 0x646f72616e646f6dULL ^ k1, v2 = 0x6c7967656e657261ULL ^ k0, v3 = 0x7465646279746573ULL ^ k1;
    const uint8_t *end = in + inlen - (inlen % 8);
    uint64_t b = ((uint64_t)inlen) << 56, m;
    for (; in != end; in += 8) { memcpy(&m, in, 8); v3 ^= m; SIPROUND; SIPROUND; v0 ^= m; }
    int left = inlen & 7;
    for (int i = 0; i < left; i++) b |= ((uint64_t)in[i]) << (8 * i);
    v3 ^= b; SIPROUND; SIPROUND; v0 ^= b; v2 ^= 0xff; SIPROUND; SIPROUND; SIPROUND; SIPROUND;
    return v0 ^ v1 ^ v2 ^ v3;
}

int main(int argc, char **argv) {
    uint64_t k0 = argc > 1 ? strtoull(argv[1], 0, 16) : 0, k1 = argc > 2 ? strtoull(argv[2], 0, 16) : 0;
    int found0 = 0, foundf = 0;
    /* IPv4: src = 10.a.b.c (varied), dst = 192.0.2.1, sport varied, dport 80.  u32 written native-endian = host order
     * of the big-endian-decoded address value (Ipv4Addr -> u32 is big-endian decode, then write_u32 native). */
    uint32_t dst = (192u << 24) | (0u << 16) | (2u << 8) | 1u;
    uint16_t dport = 80;
    for (uint64_t n = 0; n < (1ULL << 34) && !(found0 >= 2 && foundf >= 2); n++) {
        uint32_t src = (10u << 24) | (uint32_t)(n & 0xFFFFFF);
        uint16_t sport = 40000 + (uint16_t)((n >> 24) & 0x3FF);
        uint8_t buf[12];
        memcpy(buf, &src, 4); memcpy(buf + 4, &dst, 4); memcpy(buf + 8, &sport, 2); memcpy(buf + 10, &dport, 2);
        uint32_t c = (uint32_t)siphash24(buf, 12, k0, k1);
        if ((c == 0 && found0 < 2) || (c == 0xFFFFFFFFu && foundf < 2)) {
            printf("{\"key\": [\"%llx\", \"%llx\"], \"src\": \"%u.%u.%u.%u\", \"sport\": %u, \"dst\": \"192.0.2.1\", \"dport\": 80, \"cookie\": \"%08x\"}\n",
                   (unsigned long long)k0, (unsigned long long)k1, src >> 24, (src >> 16) & 255, (src >> 8) & 255, src & 255, sport, c);
            fflush(stdout);
            if (c == 0) found0++; else foundf++;
        }
    }
    return 0;
}
