#!/usr/bin/env python3
"""Birthday hunt for two TCP flows with the same SYN cookie under one key (witness of the known finding
'cookie-collision').  Prints a JSON witness; a human commits it to known_findings.json."""
import json
import os
import sys

sys.path.insert(0, os.path.dirname(os.path.dirname(os.path.abspath(__file__))))
from mv import core, pkt, gen          # noqa: E402
from mv.driver import Config           # noqa: E402
from mv.pkt import SYN                 # noqa: E402


def shard(ctx, n):
    rng = ctx.rng
    key = (0x1111111111111111 * (ctx.shard + 1) & 0xFFFFFFFFFFFFFFFF, 0x0123456789ABCDEF)
    mac = pkt.mac("c0:ff:ee:c0:ff:ee")
    cfg = Config(mac, None, None, key, "n", 0)
    ctx.universal = False
    ctx.case(cfg, record=False)
    cip, sip = pkt.ip("198.51.100.7"), pkt.ip("203.0.113.9")
    e = pkt.Endp(pkt.mac("02:00:00:00:00:01"), mac, cip, sip)
    seen = {}
    for base in range(0, n, 2000):
        tuples = [(1024 + (i % 60000), 1 + (i // 60000)) for i in range(base, min(n, base + 2000))]
        rs = ctx.send_many([e.tcp(sp, dp, 1, 0, SYN) for sp, dp in tuples])
        for (sp, dp), r in zip(tuples, rs):
            c = pkt.parse(r.reply).seq
            if c in seen:
                a = seen[c]
                ctx.extra["witness"] = {"mac": "c0:ff:ee:c0:ff:ee", "key": ["%x" % key[0], "%x" % key[1]],
                                        "A": ["198.51.100.7", a[0], "203.0.113.9", a[1]], "B": ["198.51.100.7", sp, "203.0.113.9", dp],
                                        "cookie": "%08x" % c}
                return
            seen[c] = (sp, dp)


if __name__ == "__main__":
    res = core.run_shards(shard, "C07", "quick", 1, n=int(sys.argv[1]) if len(sys.argv) > 1 else 200000)
    for r in res:
        if "error" in r:
            print(r["error"])
        w = r.get("extra", {}).get("witness")
        if w:
            print(json.dumps(w))
