#!/usr/bin/env python3
"""Evaluate seeded changes (mutants) against the checks.

  tools/seedtest.py confirm <dir>            confirm a candidate: patch applies, builds, the 93 tests pass with it,
                                             demo passes on the clean tree and fails on the mutant
  tools/seedtest.py run <dir> [Cxx ...]      run checks (default: the owning check, quick tier) against the mutant
  tools/seedtest.py all [Cxx ...]            run every /verif/seeded/*/ against its owning check (or the listed ones)

<dir> holds patch.diff, optionally demo.diff and meta.json ({"property": "Cxx", ...}).  Each run uses a scratch git
worktree of /repo under /tmp/mut (removed afterwards, together with its build output); /repo itself is never modified.
"""
import json
import os
import shutil
import subprocess
import sys
import time

VERIF = os.path.dirname(os.path.dirname(os.path.abspath(__file__)))
SCRATCH = "/tmp/mut"
TEST_TARGET = os.path.join(SCRATCH, "target-tests")


def sh(cmd, cwd=None, env=None, timeout=3600):
    r = subprocess.run(cmd, cwd=cwd, env=env, stdout=subprocess.PIPE, stderr=subprocess.STDOUT, shell=isinstance(cmd, str), timeout=timeout)
    return r.returncode, r.stdout.decode(errors="replace")


def worktree(name):
    os.makedirs(SCRATCH, exist_ok=True)
    path = os.path.join(SCRATCH, name)
    if os.path.exists(path):
        drop(path)
    rc, out = sh(["git", "-C", "/repo", "worktree", "add", "-q", "--detach", path, "HEAD"])
    if rc:
        raise SystemExit("worktree add failed: " + out)
    return path


def drop(path):
    sh(["git", "-C", "/repo", "worktree", "remove", "--force", path])
    shutil.rmtree(path, ignore_errors=True)
    sh(["git", "-C", "/repo", "worktree", "prune"])


def apply(path, diff):
    rc, out = sh(["git", "-C", path, "apply", "--whitespace=nowarn", diff])
    return rc == 0, out


def cargo_test(path, filt=None):
    tt = TEST_TARGET + os.environ.get("SEED_WORKER", "")
    env = dict(os.environ, CARGO_NET_OFFLINE="true", CARGO_TARGET_DIR=tt)
    # the target directory is shared between scratch worktrees: never trust a fingerprint left by another tree
    fdir = os.path.join(tt, "debug", ".fingerprint")
    if os.path.isdir(fdir):
        for n in os.listdir(fdir):
            if n.startswith("masscanned-"):
                shutil.rmtree(os.path.join(fdir, n), ignore_errors=True)
    env.pop("RUSTFLAGS", None)
    cmd = ["cargo", "test", "--offline", "--no-fail-fast"] + ([filt] if filt else [])
    rc, out = sh(cmd, cwd=path, env=env)
    passed = failed = 0
    for l in out.splitlines():
        if l.startswith("test result:"):
            w = l.split()
            passed += int(w[3])
            failed += int(w[5])
    return rc, passed, failed, out


def confirm(d):
    name = os.path.basename(os.path.normpath(d))
    res = {"name": name}
    wt = worktree("confirm-" + name)
    try:
        patch, demo = os.path.join(d, "patch.diff"), os.path.join(d, "demo.diff")
        ok, out = apply(wt, patch)
        res["patch_applies"] = ok
        if not ok:
            res["error"] = out[-500:]
            return res
        rc, p, f, out = cargo_test(wt)
        res["mutant_tests"] = {"rc": rc, "passed": p, "failed": f}
        if rc != 0 or f or p != 93:
            res["error"] = "existing tests do not pass with the mutant: " + out[-800:]
        if os.path.exists(demo):
            ok, out = apply(wt, demo)
            res["demo_applies_on_mutant"] = ok
            if ok:
                rc, p, f, out = cargo_test(wt)
                res["mutant_with_demo"] = {"rc": rc, "passed": p, "failed": f}
            sh(["git", "-C", wt, "checkout", "--", "."])
            sh(["git", "-C", wt, "clean", "-fdq"])
            ok, out = apply(wt, demo)
            res["demo_applies_on_clean"] = ok
            if ok:
                rc, p, f, out = cargo_test(wt)
                res["clean_with_demo"] = {"rc": rc, "passed": p, "failed": f}
        res["confirmed"] = (res.get("mutant_tests", {}).get("failed") == 0 and res.get("mutant_tests", {}).get("passed") == 93 and
                            res.get("mutant_with_demo", {}).get("failed", 0) >= 1 and res.get("clean_with_demo", {}).get("failed", 1) == 0)
    finally:
        drop(wt)
    return res


def run(d, checks=None, tier="quick", seed=None):
    name = os.path.basename(os.path.normpath(d))
    meta = {}
    if os.path.exists(os.path.join(d, "meta.json")):
        meta = json.load(open(os.path.join(d, "meta.json")))
    checks = checks or [meta.get("property") or name.split("-")[0]]
    wt = worktree("run-" + name)
    out_rows = []
    try:
        ok, out = apply(wt, os.path.join(d, "patch.diff"))
        if not ok:
            return [{"name": name, "error": "patch does not apply: " + out[-300:]}]
        for c in checks:
            env = dict(os.environ, VERIF_REPO=wt, VERIF_EVIDENCE_DIR=os.path.join(SCRATCH, "evidence-" + name))
            if seed is not None:
                env["VERIF_SEED"] = str(seed)
            t0 = time.time()
            rc, o = sh([os.path.join(VERIF, "check"), c, tier], cwd=VERIF, env=env, timeout=7200)
            viol = [l for l in o.splitlines() if l.startswith("VIOLATION")]
            keys = [l.strip() for l in o.splitlines() if l.strip().startswith("key=")]
            out_rows.append({"name": name, "check": c, "tier": tier, "exit": rc, "violations": len(viol), "first": keys[:2], "wall_s": round(time.time() - t0, 1)})
    finally:
        drop(wt)
        shutil.rmtree(os.path.join(SCRATCH, "evidence-" + name), ignore_errors=True)
        import hashlib
        tag = hashlib.sha1(os.path.abspath(wt).encode()).hexdigest()[:10]
        shutil.rmtree(os.path.join(VERIF, ".target-alt", tag), ignore_errors=True)
        shutil.rmtree(os.path.join(VERIF, ".target", "bin", tag + "-debug"), ignore_errors=True)
        shutil.rmtree(os.path.join(VERIF, ".target", "bin", tag + "-release"), ignore_errors=True)
    return out_rows


def keep(src, dst_root=None):
    """Confirm a candidate and, if confirmed, keep it under /verif/seeded/<name>/ with a meta.json."""
    dst_root = dst_root or os.path.join(VERIF, "seeded")
    name = os.path.basename(os.path.normpath(src))
    res = confirm(src)
    if not res.get("confirmed"):
        print(json.dumps({"name": name, "kept": False, "confirm": res}))
        return res
    dst = os.path.join(dst_root, name)
    os.makedirs(dst, exist_ok=True)
    for f in ("patch.diff", "demo.diff", "notes.md"):
        if os.path.exists(os.path.join(src, f)):
            shutil.copy(os.path.join(src, f), os.path.join(dst, f))
    notes = open(os.path.join(src, "notes.md")).read() if os.path.exists(os.path.join(src, "notes.md")) else ""
    meta = {"property": name.split("-")[0],
            "origin": "written by an independent sub-agent that was given only the text of the property and a scratch worktree of /repo (nothing from /verif)",
            "needs_to_manifest": "see notes.md (author's description of the frames / values / configuration / sequence required)",
            "demonstration": "demo.diff adds a unit test that passes on the clean tree and fails with patch.diff applied",
            "confirmed_by": {"tool": "tools/seedtest.py confirm (scratch git worktree of /repo under /tmp/mut, removed afterwards)",
                             "mutant_alone_cargo_test": res.get("mutant_tests"), "mutant_plus_demo": res.get("mutant_with_demo"),
                             "clean_plus_demo": res.get("clean_with_demo")},
            "notes_excerpt": notes[:1500]}
    with open(os.path.join(dst, "meta.json"), "w") as f:
        json.dump(meta, f, indent=1)
    print(json.dumps({"name": name, "kept": True}))
    return res


def main():
    if len(sys.argv) < 2:
        print(__doc__)
        return 2
    cmd = sys.argv[1]
    if cmd == "confirm":
        print(json.dumps(confirm(sys.argv[2]), indent=1))
    elif cmd == "keep":
        for d in sys.argv[2:]:
            keep(d)
    elif cmd == "run":
        tier = os.environ.get("SEED_TIER", "quick")
        for r in run(sys.argv[2], sys.argv[3:] or None, tier=tier):
            print(json.dumps(r))
    elif cmd == "all":
        root = os.environ.get("SEED_ROOT", os.path.join(VERIF, "seeded"))
        rows = []
        for n in sorted(os.listdir(root)):
            d = os.path.join(root, n)
            if os.path.isdir(d) and os.path.exists(os.path.join(d, "patch.diff")):
                for r in run(d, sys.argv[2:] or None):
                    print(json.dumps(r), flush=True)
                    rows.append(r)
                    with open(os.environ.get("SEED_RESULTS", os.path.join(root, "RESULTS.jsonl")), "a") as f:
                        f.write(json.dumps(r) + "\n")
        caught = sum(1 for r in rows if r.get("exit") == 1 and r.get("violations"))
        print("caught %d of %d" % (caught, len(rows)))
    return 0


if __name__ == "__main__":
    sys.exit(main())
