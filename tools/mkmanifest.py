#!/usr/bin/env python3
"""Regenerate MANIFEST.json from the table below (keeps it valid and in sync with the checks present)."""
import json
import os
import subprocess
import sys

VERIF = os.path.dirname(os.path.dirname(os.path.abspath(__file__)))
sys.path.insert(0, VERIF)

TEXT = {
    "C01": ("§5 C01", "crash monitor (caught panic / process death / CPU-time watchdog / canary) over grammar-based, truncation-exhaustive and mutated frame histories under all 72 configurations, debug+release",
            "Held on the executions produced (10^6-10^7 frames per run, every truncation length of every seed, all 72 configuration classes, both arithmetic profiles); says nothing about frames the generators cannot produce."),
}


def main():
    props = [json.loads(l) for l in open(os.path.join(VERIF, "properties.jsonl"))]
    checks, na = [], []
    for p in props:
        pid = p["id"]
        if os.path.exists(os.path.join(VERIF, "mv", "checks", pid.lower() + ".py")) and pid in TEXT:
            ref, tech, text = TEXT[pid]
            checks.append({
                "property_id": pid,
                "quick_cmd": "./check %s quick" % pid,
                "thorough_cmd": "./check %s thorough" % pid,
                "evidence_file": "/verif/evidence/%s.json" % pid,
                "replay_cmd_template": "./check %s --replay {path}" % pid,
                "engine": "mv",
                "level_claimed": {"category": "exploration", "text": text, "design_ref": "DESIGN.md " + ref},
                "level_note": "Trusted: the guarded driver (src/verif.rs) mirrors the receive-loop body; the Python reference "
                              "models in /verif/mv; CPython's struct/zlib/socket. Verdicts hold for the executions observed only.",
                "technique": tech,
            })
        else:
            na.append({"property_id": pid, "reason": "check not implemented yet in this revision of /verif (work in progress; runtime monitoring does apply, see DESIGN.md §5)"})
    hooks = subprocess.run(["git", "-C", "/repo", "log", "--format=%H %s"], stdout=subprocess.PIPE).stdout.decode().splitlines()
    hook_commits = [l.split()[0] for l in hooks if " verif hook:" in l]
    m = {
        "version": 1,
        "setup_cmd": "python3 -m mv.build debug release",
        "hooks": {
            "guard": "ivre_masscanned_verif",
            "enable": "RUSTFLAGS='--cfg ivre_masscanned_verif --check-cfg cfg(ivre_masscanned_verif)' cargo build --offline --target-dir /verif/.target (done by mv/build.py on every check invocation); driver mode is entered when MASSCANNED_VERIF_DRIVER is set",
            "baseline_off_cmd": "cd /repo && cargo test --workspace --no-fail-fast --offline",
            "source_commits": list(reversed(hook_commits)),
            "add_only": True,
        },
        "engines": [{"name": "mv", "path": "/verif/mv", "serves_properties": [c["property_id"] for c in checks],
                     "kind_free_text": "runtime monitoring: the real reply() driven through a cfg-guarded stdin/stdout driver by 16 sharded Python workload generators; independent reference-model monitors decide each observed (frame, reply, table, log) event"}],
        "checks": checks,
        "not_applicable": na,
        "notes": "Exit codes: 0 held on everything explored (KNOWN-FINDING lines allowed), 1 + VIOLATION line, 2 infrastructure failure / observed too little (inconclusive). VERIF_SEED selects the workload seed.",
    }
    with open(os.path.join(VERIF, "MANIFEST.json"), "w") as f:
        json.dump(m, f, indent=1)
    print("MANIFEST.json: %d checks, %d not yet claimed" % (len(checks), len(na)))


if __name__ == "__main__":
    main()
