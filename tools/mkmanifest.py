#!/usr/bin/env python3
"""Regenerate MANIFEST.json from the table below (keeps it valid and in sync with the checks present)."""
import json
import os
import subprocess
import sys

VERIF = os.path.dirname(os.path.dirname(os.path.abspath(__file__)))
sys.path.insert(0, VERIF)

TEXT = {
    "C01": ("§5 C01", "crash monitor (caught panic / process death / CPU-time watchdog / canary) over grammar-based, truncation-exhaustive and mutated frame histories under all 72 configurations, debug+release",
            "Held on the executions produced (10^6-10^7 frames per run, every truncation length of every seed, all 72 configuration classes, both arithmetic profiles); says nothing about frames the generators cannot produce."),
    "C02": ("§5 C02", "independent scope model (authorised-MAC set, deny set, EtherType/protocol sets, reply identity) over bit-flip-exhaustive addressing sweeps with in-scope control twins",
            "Held on ~10^6-10^7 frames per run: every single-bit flip of every authorised MAC, all 65536 EtherTypes, all 256 protocol numbers per IP version, neighbours of self-IP/deny members; each silence is attributed to the filter by an answered control twin."),
    "C03": ("§5 C03", "independent mirror oracle (addresses, ports, STUN port exception) on every reply of a randomised reply-eliciting mix and its mutations",
            "Held on ~10^6 replies per run with random MACs/addresses/ports in both IP versions; the oracle also runs as a secondary monitor inside every other check."),
    "C04": ("§5 C04", "independent re-parse and re-checksum of every emitted frame + every echo length + deterministic checksum steering to the 0x0000/0xFFFF boundary",
            "Held on ~10^6 replies per run incl. all echo payload lengths 0..1472 and steered boundary checksums for STUN/DNS/RPC/echo/TCP; replies larger than the largest elicited one are not explored."),
    "C05": ("§5 C05", "exact expected-reply model for ARP / ND / echo over the exhaustive ICMP (type, code) grids and every echo length",
            "Held on the complete 2 x 65536 (type, code) grids, all 2 x 1473 echo lengths and ~10^6 ARP/NS shapes per run."),
    "C06": ("§5 C06", "closed-form SYN policy oracle over the exhaustive 512-flag grid + metamorphic cookie determinism/sensitivity pairs",
            "Held on the full flag x payload x seq-class x IP-version grid on random tuples (before and after validation/floods) and ~5*10^4 single-input perturbation pairs per run; no hash function is imposed."),
    "C07": ("§5 C07", "executable TCP connection model (validated-flow set, boundary-learned cookies) checked against random interleaved multi-flow scripts, on idle and on busy responders (hundreds to 9000 connections held), random logger / verbosity",
            "Held on ~10^5 random scripts per run incl. wrap-around arithmetic and near-miss acknowledgement numbers; one genuine defect (cookie collisions share a control block) is a recorded known finding."),
    "C08": ("§5 C08", "metamorphic non-interference: F alone / H alone / random interleaving must give canonically equal replies; fresh-process baselines for one-bit twin datagrams; multi-segment sessions alone vs. inside a crowd of 2 x 66 000 other connections",
            "Held on ~3*10^4 (F, H, interleaving) triples per run with one-field-different tuples; the cookie-collision known finding is reproduced from its witness."),
    "C09": ("§5 C09", "table-size probe after every frame against the validated-flow model + counting-allocator live-heap measurement across unvalidated floods",
            "Held on 1.6*10^6 flood frames per run (heap delta measured exactly) and ~7*10^3 model scripts; cookie-collision known finding reproduced."),
    "C10": ("§5 C10", "exhaustive product exploration of the compiled matcher vs. the reference signature automaton (all states x 256 bytes + END), frame-level confirmation by constraint-solved valid requests, segmentation independence via table dump",
            "The matcher-level sub-space is enumerated completely (328 product states, 84040 real matcher steps); observable consequences are confirmed at frame level; the 101 divergence edges of the unchanged tree are a recorded known finding (two root causes)."),
    "C11": ("§5 C11", "all 1-cut and 2-cut segmentations (+ sampled k-cuts, byte-wise) of grammar-generated HTTP / RPC streams against the unsegmented reference and the grammar's trigger byte",
            "Held on ~10^5-10^6 sessions per run: every one- and two-cut composition of each sampled stream; streams are sampled, not enumerated."),
    "C12": ("§5 C12", "reply-typed message corpus (hand-made + the responder's own replies bounced back; spliced three-segment streams embedding a request tail) with reflection-chain following; non-triviality checked by flipping the reply marker",
            "Held on ~7*10^5 chains per run over all enumerated reply kinds, both IP versions."),
    "C13": ("§5 C13", "HTTP request grammar + single-fault corruptions, response decoded by an independent parser (status, challenge, Content-Length vs. body)",
            "Held on ~10^5 positive and ~7*10^5 single-fault negative requests per run over UDP and TCP."),
    "C14": ("§5 C14", "independent DNS codec: field-by-field comparison of responses to generated IN/A queries; non-IN/A and every-truncation negatives",
            "Held on ~2*10^5 queries, 10^5 non-IN/A and 7*10^5 truncation negatives per run."),
    "C15": ("§5 C15", "independent STUN codec over all source ports and all recognised request forms; other classes/methods on established STUN flows; malformed TLVs",
            "Held on every source port 0..65535 (thorough; quarter in quick) and ~3*10^5 further requests per run."),
    "C16": ("§5 C16", "independent XDR reader over all 256 programs, all 256 procedures, version classes, auth lengths, ports, UDP/TCP, IPv4/IPv6",
            "Held on ~9*10^5 calls per run; shadowed xids are excluded by the matcher-agreement precondition (C10)."),
    "C17": ("§5 C17", "independent NBSS/SMB1/SMB2 codecs over random correlation ids, dialect lists (permutations, duplicates, unknown), blob lengths, all commands",
            "Held on ~4*10^5 positive and ~2*10^5 negative requests per run."),
    "C18": ("§5 C18", "SSH identification-string grammar with arbitrary bytes, length boundaries + malformed variants; Gh0st frame decoded with CPython zlib; two-segment sessions idle vs. inside a crowd of 2 x 66 000 connections",
            "Held on ~3*10^5 banners and Gh0st payloads per run."),
    "C19": ("§5 C19", "metamorphic placement independence: same payload to 24 (ports, IP version) placements per transport, canonical replies compared; scanner-style stage (one client, one source port, many services in one table)",
            "Held on ~4*10^4 payloads x 48 placements per run incl. mutated payloads."),
    "C20": ("§5 C20", "independent parsers of both log formats + per-frame event grammar, fate, field and reach-model monitor on stdout of the real loggers",
            "Held on ~2*10^6 frames per run under both loggers; 17 distinct event words observed, all balanced."),
}


def main():
    props = [json.loads(l) for l in open(os.path.join(VERIF, "properties.jsonl"))]
    checks, na = [], []
    for p in props:
        pid = p["id"]
        if os.path.exists(os.path.join(VERIF, "mv", "checks", pid.lower() + ".py")) and pid in TEXT:
            ref, tech, text = TEXT[pid]
            checks.append({
                "property_id": pid,
                "quick_cmd": "./check %s quick" % pid,
                "thorough_cmd": "./check %s thorough" % pid,
                "evidence_file": "/verif/evidence/%s.json" % pid,
                "replay_cmd_template": "./check %s --replay {path}" % pid,
                "engine": "mv",
                "level_claimed": {"category": "exploration", "text": text, "design_ref": "DESIGN.md " + ref},
                "level_note": "Trusted: the guarded driver (src/verif.rs) mirrors the receive-loop body; the Python reference "
                              "models in /verif/mv; CPython's struct/zlib/socket. Verdicts hold for the executions observed only.",
                "technique": tech,
            })
        else:
            na.append({"property_id": pid, "reason": "check not implemented yet in this revision of /verif (work in progress; runtime monitoring does apply, see DESIGN.md §5)"})
    hooks = subprocess.run(["git", "-C", "/repo", "log", "--format=%H %s"], stdout=subprocess.PIPE).stdout.decode().splitlines()
    hook_commits = [l.split()[0] for l in hooks if " verif hook:" in l]
    m = {
        "version": 1,
        "setup_cmd": "python3 -m mv.build debug release",
        "hooks": {
            "guard": "ivre_masscanned_verif",
            "enable": "RUSTFLAGS='--cfg ivre_masscanned_verif --check-cfg cfg(ivre_masscanned_verif)' cargo build --offline --target-dir /verif/.target (done by mv/build.py on every check invocation); driver mode is entered when MASSCANNED_VERIF_DRIVER is set",
            "baseline_off_cmd": "cd /repo && cargo test --workspace --no-fail-fast --offline",
            "source_commits": list(reversed(hook_commits)),
            "add_only": True,
        },
        "engines": [{"name": "mv", "path": "/verif/mv", "serves_properties": [c["property_id"] for c in checks],
                     "kind_free_text": "runtime monitoring: the real reply() driven through a cfg-guarded stdin/stdout driver by 16 sharded Python workload generators; independent reference-model monitors decide each observed (frame, reply, table, log) event"}],
        "checks": checks,
        "not_applicable": na,
        "notes": "Exit codes: 0 held on everything explored (KNOWN-FINDING lines allowed), 1 + VIOLATION line, 2 infrastructure failure / observed too little (inconclusive). VERIF_SEED selects the workload seed.",
    }
    with open(os.path.join(VERIF, "MANIFEST.json"), "w") as f:
        json.dump(m, f, indent=1)
    print("MANIFEST.json: %d checks, %d not yet claimed" % (len(checks), len(na)))


if __name__ == "__main__":
    main()
