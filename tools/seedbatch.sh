#!/bin/bash
# usage: tools/seedbatch.sh <dir-with-candidates> <name>...   -> confirm + run owning check for each
root=$1; shift
for n in "$@"; do
  python3 /verif/tools/seedtest.py confirm $root/$n | python3 -c "import json,sys; r=json.load(sys.stdin); print('CONFIRM', r['name'], r.get('confirmed'), r.get('mutant_tests'), r.get('mutant_with_demo'), r.get('clean_with_demo'), r.get('error','')[:200])"
  python3 /verif/tools/seedtest.py run $root/$n | cut -c1-400
done
