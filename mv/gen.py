"""Workload generators: addresses, configurations, seed frames for every layer/protocol, mutators."""
import struct

from . import pkt
from .pkt import SYN, ACK, PSH, FIN, RST, URG, ECE, CWR, NS, P_ICMP, P_ICMP6, P_TCP, P_UDP, ET_ARP, ET_IP4, ET_IP6
from .driver import Config
from .protos import http, dns, stun, rpc, smb, sshghost

PORTS = [0, 1, 22, 53, 80, 111, 139, 445, 3478, 8080, 65534, 65535, 443, 8443, 21, 23, 25, 110, 143, 389, 993, 1080, 1433, 3306, 3389, 5060, 5432, 5900, 6379, 8000, 8888, 9200, 1023, 1024, 2049, 5349]


def rnd_mac(rng, unicast=True):
    b = bytearray(rng.getrandbits(8) for _ in range(6))
    if unicast:
        b[0] &= 0xFE
    return bytes(b)


SPECIAL4 = [bytes(4), b"\xff\xff\xff\xff", bytes([127, 0, 0, 1]), bytes([224, 0, 0, 1]), bytes([169, 254, 1, 1]), bytes([0, 0, 0, 1])]


def rnd_ip4(rng, special=0.0):
    if special and rng.random() < special:
        return rng.choice(SPECIAL4)
    # hosts whose last octet is 0 or 255 are ordinary unicast hosts in any network wider than a /24
    return bytes([rng.choice([10, 172, 192, 1, 100, 203, rng.randrange(1, 224)]), rng.getrandbits(8), rng.getrandbits(8),
                  rng.choice([0, 255]) if rng.random() < 0.04 else rng.randrange(1, 255)])


def rnd_ip6(rng, special=0.0):
    if special and rng.random() < special:
        return rng.choice([bytes(16), bytes(15) + b"\x01", bytes(12) + rnd_ip4(rng), pkt.ip("ff02::1"), pkt.ip("fe80::1"), pkt.ip("64:ff9b::") [:12] + rnd_ip4(rng)])
    k = rng.randrange(5)
    if k == 4:
        return bytes(12) + rnd_ip4(rng)          # IPv4-compatible ::a.b.c.d
    if k == 0:
        return bytes.fromhex("20010db8") + bytes(rng.getrandbits(8) for _ in range(12))
    if k == 1:
        return bytes.fromhex("fe80000000000000") + bytes(rng.getrandbits(8) for _ in range(8))
    if k == 2:
        return b"\0" * 10 + b"\xff\xff" + rnd_ip4(rng)
    return bytes(rng.getrandbits(8) | (0x20 if i == 0 else 0) for i in range(16))


def rnd_port(rng):
    return rng.choice(PORTS) if rng.random() < 0.4 else rng.getrandbits(16)


def rnd_key(rng):
    return (rng.getrandbits(64), rng.getrandbits(64))


def rnd_config(rng, selfips=None, deny=None, logger=None, level=None, n4=2, n6=2, single_family=False):
    """selfips/deny: None = decide at random, False = absent, True = present."""
    mac = rnd_mac(rng)
    if rng.random() < 0.03:
        mac = bytes(6)          # interfaces without a hardware address (tun, loopback) report the all-zero MAC
    s = None
    if selfips is True or (selfips is None and rng.random() < 0.5):
        k = rng.random() if single_family else 0.0
        # both families; on request sometimes a list with IPv4 addresses only or IPv6 addresses only
        s = ([rnd_ip4(rng) for _ in range(rng.randrange(1, n4 + 1))] if k < 0.9 else []) + \
            ([rnd_ip6(rng) for _ in range(rng.randrange(1, n6 + 1))] if k < 0.8 or k >= 0.9 else [])
    d = None
    if deny is True or (deny is None and rng.random() < 0.3):
        d = [rnd_ip4(rng) for _ in range(rng.randrange(1, 3))] + [rnd_ip6(rng) for _ in range(rng.randrange(1, 3))]
    # half of the configurations with a list have it written the way real lists are (file and / or inline, with junk entries)
    noise = rng.getrandbits(30) if (s or d) and rng.random() < 0.5 else None
    return Config(mac, s, d, rnd_key(rng), rng.choice("ncl") if logger is None else logger,
                  rng.randrange(6) if level is None else level, noise=noise)


def all_log_configs():
    """The 72 (self-IP, deny, logger, level) combinations of C01's quantifier, as parameter tuples."""
    return [(s, d, lg, lv) for s in (False, True) for d in (False, True) for lg in "ncl" for lv in range(6)]


def endp(rng, cfg, v6, in_scope=True, own_src=0.0):
    """Client/server addressing towards the responder configured by cfg."""
    if cfg.selfips and in_scope:
        cands = [a for a in cfg.selfips if (len(a) == 16) == v6]
        sip = rng.choice(cands) if cands else (rnd_ip6(rng) if v6 else rnd_ip4(rng))
    else:
        sip = rnd_ip6(rng) if v6 else rnd_ip4(rng)
    smac = cfg.mac
    if not cfg.selfips and in_scope and rng.random() < 0.04:
        # without a self-IP list every destination address is handled: group and broadcast addresses included
        if v6:
            sip = rng.choice([pkt.ip("ff02::1"), pkt.ip("ff02::2"), pkt.solicited_node(rnd_ip6(rng)), pkt.ip("ff05::1:3")])
            smac = rng.choice([cfg.mac, pkt.ALLNODES_MAC])
        else:
            sip = rng.choice([pkt.ip("224.0.0.1"), pkt.ip("224.0.0.251"), pkt.ip("255.255.255.255"), rnd_ip4(rng)[:3] + b"\xff"])
            smac = rng.choice([cfg.mac, pkt.BCAST])
    while True:
        cip = rnd_ip6(rng, special=0.03) if v6 else rnd_ip4(rng, special=0.03)
        k = rng.random() if own_src else 1.0
        if k < own_src:
            cip = sip                                   # a peer using the very address it talks to (reflection, loopback tests)
        elif k < 2 * own_src and cfg.selfips:
            same = [a for a in cfg.selfips if (len(a) == 16) == v6]
            if same:
                cip = rng.choice(same)                  # a peer that is another of the responder's own addresses
        if not cfg.deny or cip not in cfg.deny:
            break
    return pkt.Endp(rnd_mac(rng), smac, cip, sip, fuzz=rng)


# ------------------------------------------------------------------------------------------------
# application requests
# ------------------------------------------------------------------------------------------------
def app_requests(rng):
    """One valid request per application protocol/form: list of (name, udp payload, tcp payload)."""
    out = []
    out.append(("http", http.gen(rng), None))
    q, _, _, _ = dns.gen_query(rng)
    out.append(("dns", q, None))
    for form in ("magic_empty", "magic_long", "magic_long_cr", "legacy_empty", "legacy_cr"):
        out.append(("stun_" + form, stun.gen_request(rng, form)[0], None))
    for proc, vers in ((0, 2), (3, 2), (3, 4), (4, 2), (4, 3), (9, 3), (3, 9), (1, 2), (2, rng.choice([2, 3, 4]))):
        c = rpc.gen_call(rng, prog=rpc.PMAP, vers=vers, proc=proc)
        out.append(("rpc_p%d_v%d" % (proc, vers), c["msg"], rpc.record(c["msg"])))
    c = rpc.gen_call(rng, prog=100003)
    out.append(("rpc_other", c["msg"], rpc.record(c["msg"])))
    for k in ("smb1_neg", "smb1_sess", "smb2_neg", "smb2_sess"):
        out.append((k, smb.gen_request(rng, k)["payload"], None))
    out.append(("ssh", sshghost.gen_banner(rng), None))
    out.append(("ghost", sshghost.gen_ghost(rng), None))
    return [(n, u, t if t is not None else u) for n, u, t in out]


def near_requests(rng):
    """Messages next to the request languages - mostly ones the responders must refuse (other DNS types / classes,
    reply-typed messages, unsupported commands, single-fault requests): list of (name, udp payload, tcp payload).
    Whatever the responder does with them, it has to do the same on every port and over both IP versions."""
    out = []
    labels = dns.gen_labels(rng, 60)
    for qt, qc in ((28, 1), (255, 1), (15, 1), (16, 1), (12, 1), (1, 3), (1, 255), (28, 1)):
        qs = [dns.question(labels, qt, qc)] + ([dns.question(dns.gen_labels(rng, 40))] if rng.random() < 0.4 else [])
        rng.shuffle(qs)
        out.append(("dns_q%d_c%d" % (qt, qc), dns.header(rng.getrandbits(16), 0x0100, len(qs)) + b"".join(qs), None))
    out.append(("dns_qr", dns.header(rng.getrandbits(16), 0x8180, 1, 1) + dns.question(labels) + dns.rr(labels), None))
    # names with NUL bytes inside a label, labels that run past the NUL, length octets above 63
    for nm in (b"\x05ab\x00cd\x00", b"\x0ca\x00\x00\x01\x00\x01efgh\x00\x0f\x00", b"\x01\x00\x00", b"\x03www\x07exa\x00mple\x00", b"\x40" + b"a" * 64 + b"\x00"):
        out.append(("dns_nul", dns.header(rng.getrandbits(16), 0x0100, 1) + nm + b"\x00\x01\x00\x01", None))
    tid = stun.gen_tid(rng, True)
    for mt in (0x0011, 0x0101, 0x0002, 0x0003):
        out.append(("stun_t%04x" % mt, stun.msg(mt, tid, stun.gen_attrs(rng, 4 * rng.randrange(0x40, 0x60))), None))
    for prog, vers in ((100000, 1), (100000, 5), (99839, 2), (100096, 2), (100003, 3), (200000, 2)):
        c = rpc.gen_call(rng, prog=prog, vers=vers, proc=rng.choice([0, 3, 4]), maxauth=8)
        m = bytes([0x7A]) + c["msg"][1:]
        out.append(("rpc_p%d_v%d" % (prog, vers), m, rpc.record(m)))
    p = http.gen_parts(rng)
    for f in rng.sample(http.FAULTS, 3):
        out.append(("http_" + f, http.fault(rng, p, f), None))
    for k in rng.sample(sshghost.SSH_FAULTS, 2):
        out.append(("ssh_" + k, sshghost.gen_bad_banner(rng, k), None))
    for cmd in (0x73 ^ 0x01, 0x71, 0x25, 0xA2):
        out.append(("smb1_cmd%02x" % cmd, smb.nbss(smb.smb1_header(cmd) + smb.smb1_negotiate_body([b"NT LM 0.12"])), None))
    for cmd in (2, 3, 5, 0x000B):
        out.append(("smb2_cmd%d" % cmd, smb.nbss(smb.smb2_header(cmd) + smb.smb2_negotiate_body([0x0202])), None))
    return [(n, u, t if t is not None else u) for n, u, t in out]


def tcp_payload(rng):
    """One TCP application payload: a valid request of some protocol, a request with a single grammar fault (still
    carrying its protocol's signature), or a parser-hostile byte string."""
    k = rng.random()
    if k < 0.5:
        return rng.choice(app_requests(rng))[2]
    if k < 0.75:
        return http.fault(rng, http.gen_parts(rng), rng.choice(http.FAULTS))
    if k < 0.85:
        return sshghost.gen_bad_banner(rng, rng.choice(sshghost.SSH_FAULTS))
    return rng.choice(hostile_payloads(rng))[1]


UNIT_TEST_PAYLOADS = [
    b"GET / HTTP/1.1\r\n\r\n", b"SSH-2.0-OpenSSH_8.9\r\n", b"Gh0st\xad\x00\x00\x00\xe0\x00\x00\x00x\x9cKS``\x98\xc3\xc0\xc0\xc0\x06\xc4\x8c@\xbcQ\x96\x81\x81\tH\x07\xa7\x16\x95e&\xa7*\x04$&g+\x182\x94\xf6\xb000\xac\xa8rc\x00\x01\x11\xa0\x82\x1f\\`&\x83\xc7K7\x86\x19\xe5n\x0c9\x95n\x0c;\x84\x0f3\xac\xe8sch\xa8^\xcf4'J\x97\xa9\x82\xe30\xc3\x91h]&\x90\xf8\xce\x97S\xcbA4L?2=\xe1\xc4\x92\x86\x0b@\xf5`\x0cT\x1f\xae\xaf]\nr\x0b\x03#\xa3\xdc\x02~\x06\x86\x03+\x18m\xc2=\xfdtC,C\xfdL<<==\\\x9d\x19\x88\x00\xe5 \x02\x00T\xf5+\\",
    b"\x00\x01\x00\x00\x21\x12\xa4\x42" + b"\0" * 12,
    b"\x00\x01\x00\x08\x01\xdb\xd4]4\x9f\xe2RQ\x19\x05,\x93\x14f4\x00\x03\x00\x04\x00\x00\x00\x02",
    bytes.fromhex("80000028 72fe1d13 00000000 00000002 000186a0 00019778 00000000 00000000 00000000 00000000 00000000".replace(" ", "")),
    bytes.fromhex("72fe1d13 00000000 00000002 000186a0 00019778 00000000 00000000 00000000 00000000 00000000".replace(" ", "")),
]


# ------------------------------------------------------------------------------------------------
# L2-L4 seed frames
# ------------------------------------------------------------------------------------------------
def ns_frame(e, target, opts=b"", code=0, dst_solicited=False):
    """Neighbour solicitation from e.cip for `target`."""
    dst = pkt.solicited_node(target) if dst_solicited else e.sip
    dmac = pkt.solicited_mac(target) if dst_solicited else e.smac
    body = b"\0\0\0\0" + target + opts
    return pkt.eth(dmac, e.cmac, ET_IP6, pkt.ip6(e.cip, dst, P_ICMP6, pkt.icmp6(e.cip, dst, 135, code, body), hlim=255))


def arp_request(e, tpa=None, op=1):
    return pkt.eth(pkt.BCAST, e.cmac, ET_ARP, pkt.arp(op, e.cmac, e.cip, b"\0" * 6, e.sip if tpa is None else tpa))


def l2l4_seeds(rng, cfg):
    """Well-formed frames exercising every arm below the application layer (both IP versions)."""
    e4, e6 = endp(rng, cfg, False), endp(rng, cfg, True)
    out = [("arp_req", arp_request(e4)), ("arp_reply", arp_request(e4, op=2)),
           ("echo4", e4.echo(rng.getrandbits(16), 1, b"abcdefgh" * rng.randrange(0, 9))),
           ("echo6", e6.echo(rng.getrandbits(16), 1, b"abcdefgh" * rng.randrange(0, 9))),
           ("echo4_code", e4.echo(1, 1, b"x", code=3)), ("echo6_code", e6.echo(1, 1, b"x", code=3)),
           ("echoreply4", e4.echo(1, 1, b"x", typ=0)), ("echoreply6", e6.echo(1, 1, b"x", typ=129)),
           ("ns", ns_frame(e6, e6.sip, opts=b"\x01\x01" + e6.cmac)),
           ("ns_mcast", ns_frame(e6, e6.sip, opts=b"\x01\x01" + e6.cmac, dst_solicited=True)),
           ("ns_noopt", ns_frame(e6, e6.sip)),
           ("na", e6.l3(P_ICMP6, pkt.icmp6(e6.cip, e6.sip, 136, 0, b"\x60\0\0\0" + e6.cip + b"\x02\x01" + e6.cmac))),
           ("icmp6_other", e6.l3(P_ICMP6, pkt.icmp6(e6.cip, e6.sip, 133, 0, b"\0\0\0\0"))),
           ("gre4", e4.l3(47, b"\0" * 8)), ("nonxt6", e6.l3(59, b"")), ("hopopt6", e6.l3(0, b"\x3a\0\0\0\0\0\0\0")),
           ("etype", pkt.eth(cfg.mac, e4.cmac, 0x88CC, b"\x02\x07\x04" + e4.cmac))]
    for e, v in ((e4, "4"), (e6, "6")):
        sp, dp = rnd_port(rng), rnd_port(rng)
        for nm, fl in (("syn", SYN), ("synack", SYN | ACK), ("ack", ACK), ("rst", RST), ("finack", FIN | ACK),
                       ("pshack_bad", PSH | ACK), ("synece", SYN | ECE), ("syncwrece", SYN | ECE | CWR), ("fin", FIN),
                       ("null", 0), ("xmas", FIN | PSH | URG), ("rstack", RST | ACK), ("synpshack", SYN | PSH | ACK)):
            out.append(("tcp%s_%s" % (v, nm), e.tcp(sp, dp, rng.getrandbits(32), rng.getrandbits(32), fl,
                                                   b"data" if "psh" in nm else b"")))
        out.append(("tcp%s_opts" % v, e.tcp(sp, dp, 1, 0, SYN, b"", off=8, opts=b"\x02\x04\x05\xb4\x01\x03\x03\x07\x04\x02\x00\x00")))
        out.append(("udp%s_empty" % v, e.udp(sp, dp, b"")))
    base = dict(out)
    for nm in ("arp_req", "echo4", "echo6", "ns", "tcp4_syn", "tcp6_syn"):
        for f in encapsulated(rng, base[nm], types=[rng.choice(ENCAP_TYPES), 0x8100]):
            out.append(("encap_" + nm, f))
    out.extend(icmp_noise(rng, cfg, e4, e6))
    return out


ENCAP_TYPES = [0x8100, 0x88A8, 0x9100, 0x9200, 0x8847, 0x8848, 0x8864, 0x88E7, 0x893F]


def encapsulated(rng, f, types=None):
    """Variants of an (answerable) frame wrapped in a link-layer encapsulation the responder does not implement:
    802.1Q / 802.1ad / QinQ tags, MPLS label stacks, PPPoE session header.  The outer EtherType is unsupported, so
    the contract is silence - and in any case never an answer with another EtherType."""
    out = []
    for et in types or ENCAP_TYPES:
        if et in (0x8847, 0x8848):
            shim = struct.pack("!I", (rng.getrandbits(20) << 12) | 0x100 | rng.choice([1, 64, 255]))     # bottom-of-stack label
            out.append(f[:12] + struct.pack("!H", et) + shim + f[14:])
        elif et == 0x8864:
            out.append(f[:12] + struct.pack("!HBBHHH", et, 0x11, 0, rng.getrandbits(16), len(f) - 12, 0x0021 if f[12:14] == b"\x08\x00" else 0x0057) + f[14:])
        else:
            tci = struct.pack("!H", rng.choice([0, 1, 5, 100, 4095, rng.getrandbits(16)]))
            out.append(f[:12] + struct.pack("!H", et) + tci + f[12:])
            if rng.random() < 0.3:
                out.append(f[:12] + struct.pack("!H", et) + tci + struct.pack("!H", 0x8100) + tci + f[12:])   # double tag
    return out


def icmp_noise(rng, cfg, e4=None, e6=None, quoted=None):
    """ICMP / ICMPv6 messages other than echo / neighbour solicitation that real networks deliver to a host:
    errors quoting a TCP / UDP packet the responder may have sent (backscatter), router advertisements and
    solicitations, redirects, multicast listener queries, timestamp / information requests.  None is answerable and
    none may leave a trace (C05 / C08 / C09).  `quoted`: (sport, dport) of the quoted flow, responder side first."""
    e4 = e4 or endp(rng, cfg, False)
    e6 = e6 or endp(rng, cfg, True)
    sp, dp = quoted or (rnd_port(rng), rnd_port(rng))
    out = []
    # the quoted packet: responder -> client
    seg4 = pkt.tcp(e4.sip, e4.cip, sp, dp, rng.getrandbits(32), rng.getrandbits(32), rng.choice([SYN | ACK, ACK, PSH | ACK]))
    q4 = pkt.ip4(e4.sip, e4.cip, P_TCP, seg4)
    u4 = pkt.ip4(e4.sip, e4.cip, P_UDP, pkt.udp(e4.sip, e4.cip, sp, dp, b"\0" * 12))
    for typ, code in ((3, 0), (3, 1), (3, 3), (3, 4), (3, 13), (11, 0), (4, 0), (5, 1), (12, 0)):
        for q in (q4, u4):
            body = q[:rng.choice([28, 28, 24, 40, len(q)])]
            rest = (e4.sip if typ == 5 else b"\0\0" + struct.pack("!H", 1400 if code == 4 else 0)) + body
            out.append(("icmp4_err", e4.l3(P_ICMP, pkt.icmp4(typ, code, rest))))
    for typ in (13, 15, 17, 10, 9):
        out.append(("icmp4_misc", e4.l3(P_ICMP, pkt.icmp4(typ, 0, struct.pack("!HH", rng.getrandbits(16), 1) + b"\0" * 12))))
    seg6 = pkt.tcp(e6.sip, e6.cip, sp, dp, rng.getrandbits(32), rng.getrandbits(32), rng.choice([SYN | ACK, ACK, PSH | ACK]))
    q6 = pkt.ip6(e6.sip, e6.cip, P_TCP, seg6)
    for typ, code in ((1, 0), (1, 1), (1, 4), (2, 0), (3, 0), (4, 1)):
        rest = struct.pack("!I", 1280 if typ == 2 else 0) + q6[:rng.choice([48, 60, len(q6)])]
        out.append(("icmp6_err", e6.l3(P_ICMP6, pkt.icmp6(e6.cip, e6.sip, typ, code, rest))))
    # router advertisement / solicitation, redirect, MLD query: from a link-local router to all-nodes or to us
    ll = bytes.fromhex("fe80000000000000") + bytes(rng.getrandbits(8) for _ in range(8))
    allnodes = pkt.ip("ff02::1")
    for hl in (1, 2, 32, 64, 128, 255, rng.randrange(1, 256)):
        ra = bytes([hl, rng.choice([0, 0x40, 0x80, 0xC0])]) + struct.pack("!HII", rng.choice([0, 1800, 9000]), rng.getrandbits(32), rng.getrandbits(32)) + \
            b"\x01\x01" + e6.cmac + (b"\x05\x01\0\0" + struct.pack("!I", 1500) if rng.random() < 0.5 else b"")
        for dst, dmac in ((allnodes, pkt.ALLNODES_MAC), (e6.sip, e6.smac)):
            out.append(("icmp6_ra", pkt.eth(dmac, e6.cmac, ET_IP6, pkt.ip6(ll, dst, P_ICMP6, pkt.icmp6(ll, dst, 134, 0, ra), hlim=255))))
    out.append(("icmp6_rs", pkt.eth(pkt.ALLNODES_MAC, e6.cmac, ET_IP6, pkt.ip6(ll, allnodes, P_ICMP6, pkt.icmp6(ll, allnodes, 133, 0, b"\0\0\0\0\x01\x01" + e6.cmac), hlim=255))))
    out.append(("icmp6_redirect", pkt.eth(e6.smac, e6.cmac, ET_IP6, pkt.ip6(ll, e6.sip, P_ICMP6, pkt.icmp6(ll, e6.sip, 137, 0, b"\0\0\0\0" + ll + e6.cip), hlim=255))))
    out.append(("icmp6_mldq", pkt.eth(pkt.ALLNODES_MAC, e6.cmac, ET_IP6, pkt.ip6(ll, allnodes, P_ICMP6, pkt.icmp6(ll, allnodes, 130, 0, struct.pack("!HH", 10000, 0) + bytes(16)), hlim=1))))
    return out


# ------------------------------------------------------------------------------------------------
# mutators
# ------------------------------------------------------------------------------------------------
SPECIAL = [0, 1, 2, 3, 4, 5, 7, 8, 0x0F, 0x10, 0x1F, 0x20, 0x3F, 0x40, 0x7F, 0x80, 0xC0, 0xFE, 0xFF]


def mut_field(rng, b, lo=0, hi=None):
    """Overwrite a 1/2/4-byte field with a boundary or length-related value."""
    if len(b) <= lo:
        return b
    hi = len(b) if hi is None else min(hi, len(b))
    w = rng.choice([1, 1, 2, 2, 4])
    if hi - lo < w:
        w = 1
    o = rng.randrange(lo, hi - w + 1)
    cur = int.from_bytes(b[o:o + w], "big")
    k = rng.randrange(6)
    if k == 0:
        v = rng.choice(SPECIAL)
    elif k == 1:
        v = (1 << (8 * w)) - 1 - rng.choice([0, 0, 1, 2])
    elif k == 2:
        v = cur + rng.choice([-4, -2, -1, 1, 2, 4, 8, 256, -256])
    elif k == 3:
        v = len(b) - o + rng.choice([-5, -4, -1, 0, 1, 4])
    elif k == 4:
        v = rng.getrandbits(8 * w)
    else:
        v = cur ^ (1 << rng.randrange(8 * w))
    v &= (1 << (8 * w)) - 1
    enc = v.to_bytes(w, rng.choice(["big", "big", "little"]))
    return b[:o] + enc + b[o + w:]


def mut_bytes(rng, b, lo=0):
    """flip / insert / delete / splice / duplicate starting at offset >= lo."""
    if len(b) <= lo:
        return b + bytes(rng.getrandbits(8) for _ in range(rng.randrange(1, 8)))
    k = rng.randrange(6)
    o = rng.randrange(lo, len(b))
    if k == 0:
        return b[:o] + bytes([b[o] ^ (1 << rng.randrange(8))]) + b[o + 1:]
    if k == 1:
        return b[:o] + bytes(rng.choice([0, 0xFF, 0x0D, 0x0A, 0x20, 0x3A, 0x80, rng.getrandbits(8)])
                             for _ in range(rng.randrange(1, 9))) + b[o:]
    if k == 2:
        return b[:o] + b[o + rng.randrange(1, 9):]
    if k == 3:
        o2 = rng.randrange(lo, len(b))
        return b[:o] + b[o2:o2 + rng.randrange(1, 32)] + b[o:]
    if k == 4:
        return b[:o] + bytes([rng.choice([0, 0xFF, 0x0D, 0x0A, 0x20, 0x80, 0xC0, 0x7F])]) + b[o + 1:]
    return b[:o] + bytes(rng.getrandbits(8) for _ in range(min(len(b) - o, rng.randrange(1, 16)))) + b[o + 16:]


def mutate(rng, f, lo=0, rounds=None):
    rounds = rounds or rng.choice([1, 1, 1, 2, 3])
    for _ in range(rounds):
        k = rng.randrange(10)
        if k < 4:
            f = mut_field(rng, f, lo, lo + 96 if rng.random() < 0.7 else None)
        elif k < 8:
            f = mut_bytes(rng, f, lo)
        elif k == 8:
            f = f[:rng.randrange(lo, len(f) + 1)] if len(f) > lo else f
        else:
            f = f + bytes(rng.getrandbits(8) for _ in range(rng.randrange(1, 64)))
    return f[:4096]


def truncations(f):
    return [f[:i] for i in range(len(f))]


# hostile, hand-made structures -----------------------------------------------------------------
def hostile_frames(rng, cfg):
    e4, e6 = endp(rng, cfg, False), endp(rng, cfg, True)
    out = []
    # NDP options: length 0, huge lengths, truncated option, many options
    for opt in (b"\x01\x00" + e6.cmac, b"\x01\x20" + e6.cmac, b"\x01\xff" + e6.cmac, b"\x01", b"\x0e\x01\x00\x01\x02\x03\x04\x05" * 8,
                b"\x01\x02" + e6.cmac, b"\xff\x21" + b"\0" * 300):
        out.append(("ns_opt", ns_frame(e6, e6.sip, opts=opt)))
    for n in range(0, 24):
        body = (b"\0\0\0\0" + e6.sip)[:n]
        out.append(("ns_short", e6.l3(P_ICMP6, pkt.icmp6(e6.cip, e6.sip, 135, 0, body))))
    # IPv4 header games
    l4 = pkt.udp(e4.cip, e4.sip, 1000, 53, b"\0" * 12)
    for ihl in (0, 1, 4, 6, 15):
        out.append(("ip4_ihl", pkt.eth(e4.smac, e4.cmac, ET_IP4, pkt.ip4(e4.cip, e4.sip, P_UDP, l4, ihl=ihl))))
    for tot in (0, 1, 19, 20, 21, 27, 28, 29, 0xFFFF):
        out.append(("ip4_tot", pkt.eth(e4.smac, e4.cmac, ET_IP4, pkt.ip4(e4.cip, e4.sip, P_UDP, l4, tot=tot))))
    out.append(("ip4_opts", pkt.eth(e4.smac, e4.cmac, ET_IP4, pkt.ip4(e4.cip, e4.sip, P_UDP, l4, ihl=8, opts=b"\x07\x0b\x04" + b"\0" * 9))))
    out.append(("ip4_frag", pkt.eth(e4.smac, e4.cmac, ET_IP4, pkt.ip4(e4.cip, e4.sip, P_UDP, l4, frag=0x2000 | 100))))
    for plen in (0, 1, 7, 8, 9, 0xFFFF):
        l6 = pkt.udp(e6.cip, e6.sip, 1000, 53, b"\0" * 12)
        out.append(("ip6_plen", pkt.eth(e6.smac, e6.cmac, ET_IP6, pkt.ip6(e6.cip, e6.sip, P_UDP, l6, plen=plen))))
    # TCP data offset / UDP length lies
    for off in (0, 1, 4, 6, 15):
        out.append(("tcp_off", e4.tcp(1000, 80, 1, 0, SYN, b"x" * 8, off=off)))
        out.append(("tcp_off", e6.tcp(1000, 80, 1, 2, PSH | ACK, b"x" * 8, off=off)))
    for ul in (0, 7, 8, 9, 0xFFFF):
        out.append(("udp_len", e4.l3(P_UDP, pkt.udp(e4.cip, e4.sip, 1000, 53, b"\0" * 12, ulen=ul))))
    # ARP variants
    for ht, pt, hl, pl in ((1, 0x0800, 6, 4), (6, 0x0800, 6, 4), (1, 0x86DD, 6, 16), (1, 0x0800, 8, 4), (1, 0x0800, 6, 0), (0, 0, 0, 0),
                           (0xFFFF, 0xFFFF, 255, 255)):
        out.append(("arp_var", pkt.eth(pkt.BCAST, e4.cmac, ET_ARP, pkt.arp(1, e4.cmac, e4.cip, b"\0" * 6, e4.sip, ht, pt, hl, pl))))
    out.append(("tiny", b""))
    out.append(("tiny", b"\xff" * 13))
    out.append(("tiny", cfg.mac + e4.cmac + b"\x08\x00"))
    out.append(("tiny", cfg.mac + e4.cmac + b"\x86\xdd" + b"\x60"))
    out.append(("big", e4.udp(1, 2, bytes(rng.getrandbits(8) for _ in range(4096 - 42)))))
    return out


def hostile_payloads(rng):
    """Application payloads aimed at parser corner cases (sent over UDP and inside validated TCP flows)."""
    out = []
    t = stun.gen_tid(rng, True)
    # STUN: attribute length beyond data, bad families, short MAPPED-ADDRESS / CHANGE-REQUEST, with a long enough
    # message length for the compiled matcher to identify the message
    pad = stun.attr(0x8022, b"\0" * 0x100)
    for bad in (struct.pack("!HH", 0x8022, 0x200) + b"\0" * 8, struct.pack("!HH", 1, 8) + b"\0\x03\x12\x34" + b"\x01\x02\x03\x04",
                struct.pack("!HH", 1, 8) + b"\0\x00\x12\x34\x01\x02\x03\x04", struct.pack("!HH", 1, 0) + b"\0" * 2,
                struct.pack("!HH", 1, 4) + b"\0\x02\x00\x00" + b"\0", struct.pack("!HH", 3, 0) + b"\0\0",
                struct.pack("!HH", 3, 1) + b"\x02\0", struct.pack("!HH", 1, 20) + b"\0\x02\x12\x34" + b"\0" * 5,
                struct.pack("!HH", 1, 0xFFFF) + b"\0" * 6, struct.pack("!HH", 3, 4) + b"\0\0\0\x06" + b"\0",
                b"\0", b"\0\x01", b"\0\x01\0", b"\0\x01\0\0\0"):
        out.append(("stun_tlv", stun.msg(1, t, pad + bad)))
        out.append(("stun_tlv", stun.msg(1, t, bad + pad)))
    for mt in (0x0101, 0x0111, 0x0011, 0x0002, 0x0003, 0x3FFF):
        out.append(("stun_type", stun.msg(mt, t, pad)))
    out.append(("stun_len", stun.msg(1, t, pad, length=0xFFFF)))
    out.append(("stun_len", stun.msg(1, t, pad, length=0x100)))
    # HTTP: non-UTF-8 and control bytes everywhere
    for tgt in (b"/\xff", b"/\xc3\x28", b"/\x00", b"/" + b"\xf0\x90\x80", b"/\r", b"/%", b"/" + b"A" * 3000):
        out.append(("http_bytes", b"GET " + tgt + b" HTTP/1.1\r\nHost: \xff\xfe\r\n\r\n"))
    for v in (b"GET", b"get", b"GeT", b"POST", b"PATCH", b"OPTIONS"):
        out.append(("http_verb", v + b" / HTTP/1.1\r\n\r\n"))
    out.append(("http_bytes", b"GET /\xff HTTP/1.1\n\n"))
    out.append(("http_bytes", b"GET / HTTP/1.1\r\n\xff\xff: \x00\r\n\r\n"))
    out.append(("http_bytes", b"GET / HTTP/" + b"9" * 400 + b"." + b"9" * 400 + b"\r\n\r\n"))
    out.append(("http_bytes", b"GET / HTTP/1.1\r\n" + b"Content-Length: 1\r\n" * 100 + b"\r\n"))
    # SSH
    for s in (b"SSH-2.0-\xff\xfe\r\n", b"SSH-2.0-a\rb\rc \r\r\n", b"SSH-2.0-\r", b"SSH-1.99-x\r\r\r\n", b"SSH-2.0--\r\n", b"SSH-2.0", b"SSH-2.0.....-\x00\r\n",
              b"SSH-2.0-a \r\rb\r\n", b"SSH-2.0-" + b"\r" * 300 + b"\n"):
        out.append(("ssh_bytes", s))
    # DNS: counts
    for qd, an, ns, ar in ((0, 0, 0, 0), (0xFFFF, 0, 0, 0), (1, 0xFFFF, 0, 0), (0, 1, 0, 0), (0, 0, 1, 0), (0, 0, 0, 1), (2, 2, 0, 0)):
        out.append(("dns_counts", dns.header(0x1234, 0x0100, qd, an, ns, ar) + dns.question([b"a"]) + dns.rr([b"a"]) + dns.rr([b"b"], rdata=b"")))
    out.append(("dns_name", dns.header(1, 0, 1) + b"\xc0\x0c\x00\x01\x00\x01"))
    out.append(("dns_name", dns.header(1, 0, 1) + b"\x3f" + b"a" * 63 + b"\x00\x00\x01\x00\x01"))
    out.append(("dns_name", dns.header(1, 0, 1) + b"\xff" * 300))
    out.append(("dns_rr", dns.header(1, 0x8000, 1, 1) + dns.question([b"a"]) + dns.name([b"a"]) + struct.pack("!HHIH", 1, 1, 0, 0xFFFF) + b"\0" * 10))
    # RPC: lengths
    for cl, vl in ((0xFFFFFFFF, 0), (0, 0xFFFFFFFF), (1, 1), (3, 5), (0x7FFFFFFF, 0x7FFFFFFF), (400, 400), (0x80000000, 4)):
        m = struct.pack("!IIIIII", 0x11223344, 0, 2, 100000, 2, 3) + struct.pack("!II", 1, cl) + b"\0" * 8 + struct.pack("!II", 0, vl) + b"\0" * 16
        out.append(("rpc_len", m))
        out.append(("rpc_len_tcp", rpc.record(m)))
    for vers in (0, 1, 2, 3, 4, 5, 104316, 0xFFFFFFFF):
        for proc in (0, 3, 4, 5, 255):
            m = rpc.call(0x55667788, 100000, vers, proc)
            out.append(("rpc_vp", m))
            out.append(("rpc_vp_tcp", rpc.record(m)))
    out.append(("rpc_frag", struct.pack("!I", 0x00000001) + rpc.call(0x55667788, 100000, 2, 3)))
    out.append(("rpc_frag", struct.pack("!I", 0xFFFFFFFF) + rpc.call(0x55667788, 100000, 2, 3)))
    # SMB: counts and lengths
    h1 = smb.smb1_header(0x72)
    for bc, body in ((0, b""), (1, b"\x02"), (0xFFFF, b"\x02NT LM 0.12\0"), (12, b"\x02NT LM 0.12\0"), (13, b"\x02NT LM 0.12\0\x02"),
                     (2, b"\x02\0"), (4, b"\x02\0\x02\0"), (6, b"\x02\xff\xfe\0\x02\0")):
        out.append(("smb1_neg", smb.nbss(h1 + b"\0" + struct.pack("<H", bc) + body)))
    out.append(("smb1_neg", smb.nbss(h1 + b"\xff" + struct.pack("<H", 12) + b"\x02NT LM 0.12\0")))
    h1s = smb.smb1_header(0x73)
    for sl, data in ((0, b""), (1, b"x"), (0xFFFF, b"x" * 10), (10, b"x" * 10), (10, b"x" * 9)):
        words = struct.pack("<BBHHHHIHII", 0xFF, 0, 0, 0xFFFF, 2, 1, 0, sl, 0, 0)
        out.append(("smb1_sess", smb.nbss(h1s + bytes([12]) + words + struct.pack("<H", len(data)) + data)))
    for cmd in (0x00, 0x71, 0x74, 0x75, 0xFF):
        out.append(("smb1_cmd", smb.nbss(smb.smb1_header(cmd) + smb.smb1_negotiate_body([b"NT LM 0.12"]))))
    out.append(("smb1_replyflag", smb.nbss(smb.smb1_header(0x72, flags=0x98) + smb.smb1_negotiate_body([b"NT LM 0.12"]))))
    h2 = smb.smb2_header(0)
    for cnt, dl in ((0, []), (1, [0x0202]), (2, [0x0202, 0x0202]), (3, [0x0202, 0x0210]), (0xFFFF, [0x0311] * 20), (2, [0x0202, 0x0202, 0x0210]),
                    (1, [0xFFFF]), (2, [0x0001, 0x0002])):
        out.append(("smb2_neg", smb.nbss(h2 + smb.smb2_negotiate_body(dl, count=cnt))))
    h2s = smb.smb2_header(1)
    for sl, blob in ((0, b""), (1, b"x"), (0xFFFF, b"x" * 40), (40, b"x" * 40), (40, b"x" * 39)):
        out.append(("smb2_sess", smb.nbss(h2s + struct.pack("<HBBIIHHQ", 25, 0, 1, 0, 0, 0x58, sl, 0) + blob)))
    for cmd in (2, 3, 0xFFFF):
        out.append(("smb2_cmd", smb.nbss(smb.smb2_header(cmd) + smb.smb2_negotiate_body([0x0202]))))
    out.append(("smb2_replyflag", smb.nbss(smb.smb2_header(0, flags=1) + smb.smb2_negotiate_body([0x0202]))))
    out.append(("nbss_len", smb.nbss(h2 + smb.smb2_negotiate_body([0x0202]), length=0)))
    out.append(("nbss_len", smb.nbss(h2 + smb.smb2_negotiate_body([0x0202]), length=0x1FFFF)))
    out.append(("ghost", b"Gh0st"))
    out.append(("ghost", b"Gh0st" + b"\xff" * 1400))
    return out
