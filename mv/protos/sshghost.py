"""SSH identification strings and Gh0st frames: generators and oracles (C18)."""
import struct
import zlib

SSH_REPLY = b"SSH-2.0-1\r\n"


def _fill(rng, n, excl):
    out = bytearray()
    while len(out) < n:
        b = rng.randrange(256)
        if b in excl:
            continue
        out.append(b)
    return bytes(out)


def _no_crlf(b):
    """CR is allowed unless followed by LF; make sure of it.  A string may end with CR(s): the terminator's own CR
    follows, which is not an LF."""
    return b.replace(b"\r\n", b"\rx")


def _lone_lf(rng, b):
    """Sprinkle LF bytes that are not preceded by CR into a string: they are ordinary bytes of the string (only CR LF
    terminates an identification)."""
    if len(b) < 2 or rng.random() > 0.12:
        return b
    b = bytearray(b)
    for _ in range(rng.randrange(1, 3)):
        i = rng.randrange(1, len(b))
        if b[i - 1] != 0x0D and b[i] != 0x20:
            b[i] = 0x0A
    return bytes(b)


def gen_banner(rng):
    """Well-formed identification string -> bytes (including CR LF and optional trailing bytes)."""
    proto = rng.choice([b"2.0", b"1.99"])
    vext = bytes(rng.choice(b"0123456789.") for _ in range(rng.choice([0, 0, 0, 1, 3])))
    if rng.random() < 0.15:
        # identification strings whose total length (CR LF included) sits at a boundary: RFC 4253 caps them at 255 bytes
        # "including CR LF", real servers accept more - every length is a request here
        T = rng.choice([253, 254, 255, 255, 256, 257, 127, 128, 129, 511, 512, 513, 1023, 1024, 1025])
        base = len(b"SSH-" + proto + vext + b"-") + 2
        clen = rng.randrange(0, 20) if rng.random() < 0.5 else None
        slen = T - base - (0 if clen is None else 1 + clen)
        out = b"SSH-" + proto + vext + b"-" + _no_crlf(_fill(rng, slen, (0x20, 0x0A, 0x0D)))
        if clen is not None:
            out += b" " + _fill(rng, clen, (0x0A, 0x0D))
        return out + b"\r\n" + (_fill(rng, rng.randrange(1, 30), ()) if rng.random() < 0.2 else b"")
    big = rng.random() < 0.06          # identification strings that do not fit one 1500-byte frame
    soft = _no_crlf(_fill(rng, rng.choice([rng.randrange(0, 40), rng.randrange(0, 40), rng.randrange(40, 250)]) if not big or rng.random() < 0.5
                          else rng.randrange(1400, 3700), (0x20, 0x0A)))
    soft = _lone_lf(rng, soft)
    if rng.random() < 0.15:
        soft += b"\r" * rng.randrange(1, 4)          # software ending in lone CR(s)
    out = b"SSH-" + proto + vext + b"-" + soft
    if rng.random() < 0.5:
        com = _no_crlf(_fill(rng, rng.choice([rng.randrange(0, 40), rng.randrange(40, 250)]) if not big or len(soft) > 1000 else rng.randrange(1400, 3700), (0x0A,)))
        com = _lone_lf(rng, com)
        if rng.random() < 0.15:
            com += b"\r" * rng.randrange(1, 4)
        out += b" " + com
    out += b"\r\n"
    if rng.random() < 0.3:
        out += _fill(rng, rng.randrange(1, 60), ())
    return out


SSH_FAULTS = ["no_terminator", "lf_only", "cr_only", "bad_version_char", "prefix"]


def gen_bad_banner(rng, kind):
    proto = rng.choice([b"2.0", b"1.99"])
    soft = bytes(rng.choice(b"abcdefghijklmnopqrstuvwxyzOpenSSH_8.9p1") for _ in range(rng.randrange(1, 20)))
    if kind == "no_terminator":
        return b"SSH-" + proto + b"-" + soft
    if kind == "lf_only":
        return b"SSH-" + proto + b"-" + soft + b"\n"
    if kind == "cr_only":
        return b"SSH-" + proto + b"-" + soft + b"\r"
    if kind == "bad_version_char":
        bad = bytes([rng.choice(b"abcxyz_ /:\x00\xff")])
        return b"SSH-" + proto + bad + b"-" + soft + b"\r\n"
    if kind == "prefix":
        full = b"SSH-" + proto + b"-" + soft + b"\r\n"
        return full[:rng.randrange(0, len(full) - 1)]
    raise ValueError(kind)


def check_ssh(resp):
    if resp is None:
        return ["no_reply well-formed identification string not answered"]
    if resp != SSH_REPLY:
        return ["banner reply %r is not exactly %r" % (resp[:40], SSH_REPLY)]
    return []


GHOST_MAGIC = b"Gh0st"


def ghost_frame(rng, n=None):
    """A well-formed Gh0st packet: magic, total size, uncompressed size (little endian), zlib stream."""
    n = rng.choice([0, 1, 16, 200, 168, 169, 170, 180, 217, 218, 224, 260]) if n is None else n
    if rng.random() < 0.5:
        # shaped like the implant's own messages: a command token, then a structure without NUL bytes (login info with an
        # unterminated host name, heartbeats ...)
        raw = (bytes([rng.choice([0x66, 0x66, 0x00, 0x01, 0x67, 0xFF])]) + bytes(rng.choice(b"ABCDEFGHabcdefgh0123456789") for _ in range(n)))[:n]
    else:
        raw = bytes(rng.getrandbits(8) for _ in range(n))
    body = zlib.compress(raw)
    return GHOST_MAGIC + struct.pack("<II", 13 + len(body), len(raw)) + body


def gen_ghost(rng):
    if rng.random() < 0.3:
        # proper packets as the implant sends them: one, or several back to back (login + heartbeat), possibly followed by junk
        out = b"".join(ghost_frame(rng) for _ in range(rng.choice([1, 1, 2, 2, 3, 5])))
        return out + bytes(rng.getrandbits(8) for _ in range(rng.choice([0, 0, 0, 3, 20])))
    if rng.random() < 0.25:
        # a header whose declared sizes are at or next to every boundary (0, inside the header, exact, one off, huge)
        body = bytes(rng.getrandbits(8) for _ in range(rng.choice([0, 1, 7, 40])))
        edge = lambda: rng.choice([0, 1, 4, 12, 13, 14, 13 + len(body), 12 + len(body), 14 + len(body), 0x7FFFFFFF, 0x80000000, 0xFFFFFFFF])
        return GHOST_MAGIC + struct.pack("<II", edge(), edge()) + body
    return GHOST_MAGIC + bytes(rng.getrandbits(8) for _ in range(rng.choice([0, 1, 8, 9, 100, 1400, rng.randrange(0, 1401), rng.randrange(0, 1401), rng.randrange(1401, 3900)])))


def check_ghost(resp):
    errs = []
    if resp is None:
        return ["no_reply Gh0st payload not answered"]
    if not resp.startswith(GHOST_MAGIC):
        return ["magic reply does not start with the Gh0st magic: %r" % resp[:20]]
    if len(resp) < 13:
        return ["short Gh0st reply shorter than its header"]
    total, ulen = struct.unpack("<II", resp[5:13])
    if total != len(resp):
        errs.append("total declared total length %d != frame length %d" % (total, len(resp)))
    try:
        d = zlib.decompressobj()
        body = d.decompress(resp[13:]) + d.flush()
        if not d.eof:
            errs.append("zlib stream is truncated")
        if d.unused_data:
            errs.append("zlib %d bytes after the end of the zlib stream" % len(d.unused_data))
        if len(body) != ulen:
            errs.append("inflate body inflates to %d bytes, declared %d" % (len(body), ulen))
    except zlib.error as e:
        errs.append("zlib body does not inflate: %s" % e)
    return errs
