"""Own DNS codec: query generator and response oracle (C14), reply-typed messages (C12)."""
import struct


def name(labels):
    out = b""
    for l in labels:
        out += bytes([len(l)]) + l
    return out + b"\0"


def question(labels, qtype=1, qclass=1):
    return name(labels) + struct.pack("!HH", qtype, qclass)


def header(id_, flags, qd, an=0, ns=0, ar=0):
    return struct.pack("!HHHHHH", id_, flags, qd, an, ns, ar)


def rr(labels, rtype=1, rclass=1, ttl=60, rdata=b"\x01\x02\x03\x04"):
    return name(labels) + struct.pack("!HHIH", rtype, rclass, ttl, len(rdata)) + rdata


def gen_labels(rng, max_total=255):
    """Label list without NUL bytes (labels 1..63 bytes, total encoded name <= max_total)."""
    k = rng.randrange(6)
    if k == 0:
        return []
    if k == 1:
        return [b"example", b"com"]
    if k == 2 and max_total >= 255:
        # boundary: encoded name (length bytes + labels + root) of exactly 253 / 254 / 255 bytes
        want = rng.choice([253, 254, 255, 255]) - 1
        labels = []
        while want > 0:
            ll = min(want - 1, rng.choice([63, 63, 62, 10, 1, rng.randrange(1, 64)]))
            if want - 1 - ll == 1:          # would leave room for a length byte without a label byte
                ll -= 1
            if ll <= 0:
                break
            labels.append(bytes(rng.choice(b"abcdefghijklmnopqrstuvwxyz0123456789-") for _ in range(ll)))
            want -= 1 + ll
        return labels
    labels, total = [], 1
    n = rng.choice([1, 2, 3, 4, 8, 20, 127])
    for _ in range(n):
        ll = rng.choice([1, 2, 3, 7, 10, 62, 63, rng.randrange(1, 64)])
        if total + 1 + ll > max_total:
            break
        if rng.random() < 0.7:
            l = bytes(rng.choice(b"abcdefghijklmnopqrstuvwxyz0123456789-") for _ in range(ll))
        else:
            l = bytes(rng.randrange(1, 256) for _ in range(ll))
        labels.append(l)
        total += 1 + ll
    return labels


def gen_query(rng, nq=None, max_q=6):
    """(message bytes, id, flags, [question bytes]) : QR=0, only IN/A questions, no other section."""
    id_ = rng.choice([0, 1, 0xFFFF, 0x8000, rng.getrandbits(16)])
    flags = rng.getrandbits(16) & 0x7FFF     # QR = 0, everything else arbitrary
    if rng.random() < 0.3:
        flags = rng.choice([0x0000, 0x0100, 0x7FFF, 0x7800, 0x0110])
    nq = rng.choice([0, 1, 1, 1, 2, 3, max_q]) if nq is None else nq
    names = [gen_labels(rng) for _ in range(nq)]
    if nq >= 2 and rng.random() < 0.3:
        # the same name asked twice (adjacent or not), or names that differ in letter case only: still one answer each
        for _ in range(rng.randrange(1, nq)):
            i, j = rng.randrange(nq), rng.randrange(nq)
            if i != j:
                names[j] = [l.swapcase() if rng.random() < 0.4 else l for l in names[i]] if rng.random() < 0.5 else list(names[i])
    qs = [question(n) for n in names]
    return header(id_, flags, nq) + b"".join(qs), id_, flags, qs


def parse_name(b, i):
    """Plain (uncompressed) name starting at i; returns index after the root label, or None."""
    while True:
        if i >= len(b):
            return None
        l = b[i]
        if l == 0:
            return i + 1
        if l > 63:
            return None
        i += 1 + l


def check_response(resp, id_, flags, qs, dst_ip4):
    """Oracle for the response to a conforming query."""
    errs = []
    if resp is None:
        return ["no_reply conforming IN/A query not answered"]
    if len(resp) < 12:
        return ["short response shorter than a DNS header"]
    rid, rflags, qd, an, ns, ar = struct.unpack("!HHHHHH", resp[:12])
    if rid != id_:
        errs.append("id %04x != query id %04x" % (rid, id_))
    if not rflags & 0x8000:
        errs.append("qr response has QR=0")
    if (rflags >> 11) & 15 != (flags >> 11) & 15:
        errs.append("opcode %d != query opcode %d" % ((rflags >> 11) & 15, (flags >> 11) & 15))
    if (rflags >> 8) & 1 != (flags >> 8) & 1:
        errs.append("rd bit not copied")
    if qd != len(qs):
        errs.append("qdcount %d != %d questions asked" % (qd, len(qs)))
    if an != len(qs):
        errs.append("ancount %d != %d (one answer per question)" % (an, len(qs)))
    if ns or ar:
        errs.append("nscount/arcount %d/%d but no such records" % (ns, ar))
    i = 12
    for n, q in enumerate(qs):
        if resp[i:i + len(q)] != q:
            errs.append("question #%d not echoed byte-for-byte" % n)
            return errs
        i += len(q)
    for n, q in enumerate(qs):
        owner = q[:-4]
        if resp[i:i + len(owner)] != owner:
            errs.append("answer #%d owner name differs from the queried name" % n)
            return errs
        i += len(owner)
        if len(resp) < i + 10:
            errs.append("answer #%d truncated" % n)
            return errs
        t, c, ttl, rdl = struct.unpack("!HHIH", resp[i:i + 10])
        i += 10
        if (t, c) != (1, 1):
            errs.append("answer #%d type/class %d/%d is not A/IN" % (n, t, c))
        if rdl != 4:
            errs.append("answer #%d rdlength %d != 4" % (n, rdl))
            return errs
        if resp[i:i + 4] != dst_ip4:
            errs.append("answer #%d rdata %s is not the address the query was sent to" % (n, resp[i:i + 4].hex()))
        i += 4
    if i != len(resp):
        errs.append("trailing %d bytes after the last counted record" % (len(resp) - i))
    return errs


def looks_like_response_to(resp, id_):
    return resp is not None and len(resp) >= 12 and resp[:2] == struct.pack("!H", id_) and resp[2] & 0x80


def acceptable_as_request(msg):
    """Wide notion used by C12: QR=0, complete under the section grammar (questions then answers,
    no authority/additional), every question IN/A.  Between this and C14's must-answer set nothing is
    required or forbidden."""
    if len(msg) < 12:
        return False
    id_, flags, qd, an, ns, ar = struct.unpack("!HHHHHH", msg[:12])
    if flags & 0x8000 or ns or ar:
        return False
    i = 12
    for _ in range(qd):
        # names are read up to the first zero byte
        j = msg.find(b"\0", i)
        if j < 0 or len(msg) < j + 5:
            return False
        t, c = struct.unpack("!HH", msg[j + 1:j + 5])
        if (t, c) != (1, 1):
            return False
        i = j + 5
    for _ in range(an):
        j = msg.find(b"\0", i)
        if j < 0 or len(msg) < j + 11:
            return False
        rdl = struct.unpack("!H", msg[j + 9:j + 11])[0]
        i = j + 11 + rdl
        if len(msg) < i:
            return False
    return True


def mask(resp, nq=None):
    """Blank RDLENGTH+RDATA of the answers (endpoint-address field) for C19; structural walk.
    Returns None if the message cannot be walked as header + questions + answers made of label-structured names."""
    if resp is None or len(resp) < 12:
        return None
    rid, rflags, qd, an, ns, ar = struct.unpack("!HHHHHH", resp[:12])
    if not rflags & 0x8000:
        return None
    i = 12
    for _ in range(qd):
        j = parse_name(resp, i)
        if j is None or len(resp) < j + 4:
            return None
        i = j + 4
    out = bytearray(resp[:i])
    for _ in range(an):
        j = parse_name(resp, i)
        if j is None or len(resp) < j + 10:
            return None
        rdl = struct.unpack("!H", resp[j + 8:j + 10])[0]
        out += resp[i:j + 8] + b"<rdata>"
        i = j + 10 + rdl
        if i > len(resp):
            return None
    out += resp[i:]
    return bytes(out)
