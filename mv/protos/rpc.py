"""Own ONC-RPC / XDR codec (RFC 5531, RFC 1833): call generator and reply oracle (C16)."""
import struct

from .. import pkt

PMAP = 100000


def opaque_auth(flavor, body):
    return struct.pack("!II", flavor, len(body)) + body


def call(xid, prog, vers, proc, cred=b"", verf=b"", args=b"", cred_flavor=0, verf_flavor=0, rpcvers=2, mtype=0):
    return struct.pack("!IIIIII", xid, mtype, rpcvers, prog, vers, proc) + opaque_auth(cred_flavor, cred) + \
        opaque_auth(verf_flavor, verf) + args


def record(msg, last=True):
    return struct.pack("!I", (0x80000000 if last else 0) | len(msg)) + msg


WELL_KNOWN_PROGS = [100000, 100003, 100005, 100021, 100024, 100227, 100011, 391002]


def xdr_string(b):
    return struct.pack("!I", len(b)) + b + bytes(-len(b) % 4)


def pmap_args(rng, vers):
    """Arguments of portmapper SET / UNSET / GETPORT (v2: mapping) resp. rpcbind SET / UNSET / GETADDR (v3/v4: rpcb)."""
    prog, pv = rng.choice(WELL_KNOWN_PROGS), rng.choice([1, 2, 3, 4])
    if vers == 2:
        return struct.pack("!IIII", prog, pv, rng.choice([6, 17]), rng.choice([0, 111, 2049, 20048, rng.getrandbits(16)]))
    netid = rng.choice([b"tcp", b"udp", b"tcp6", b"udp6"])
    return struct.pack("!II", prog, pv) + xdr_string(netid) + xdr_string(rng.choice([b"", b"0.0.0.0.8.1", b"::.0.111"])) + xdr_string(rng.choice([b"", b"superuser", b"rpcuser"]))


def gen_call(rng, prog=None, vers=None, proc=None, maxauth=40):
    """-> dict(xid, prog, vers, proc, msg)  (msg = UDP payload; TCP payload = record(msg))."""
    xid = rng.getrandbits(32)
    if prog is None:
        prog = rng.choice([PMAP, PMAP, PMAP, rng.randrange(99840, 100096)])
    if vers is None:
        vers = rng.choice([2, 3, 4, 2, 3, 4, 0, 1, 5, 6, 104316, rng.getrandbits(32)])
    if proc is None:
        proc = rng.choice([0, 3, 4, 3, 4, 1, 2, 5, 6, 7, rng.randrange(256)])
    cl = 4 * rng.randrange(0, maxauth // 4 + 1)
    vl = 4 * rng.randrange(0, maxauth // 4 + 1) if rng.random() < 0.5 else 0
    cred = bytes(rng.getrandbits(8) for _ in range(cl))
    verf = bytes(rng.getrandbits(8) for _ in range(vl))
    args = bytes(rng.getrandbits(8) for _ in range(4 * rng.randrange(0, 6))) if rng.random() < 0.5 else b""
    if prog == PMAP and proc in (1, 2, 3) and rng.random() < 0.6:
        args = pmap_args(rng, vers)
    # AUTH_NONE / AUTH_SYS / AUTH_SHORT / AUTH_DH / RPCSEC_GSS / unassigned flavors: the responder does not authenticate anybody
    m = call(xid, prog, vers, proc, cred, verf, args, cred_flavor=rng.choice([0, 1, 1, 2, 3, 6, 7, rng.getrandbits(32)]),
             verf_flavor=rng.choice([0, 0, 0, 2, 3, 6, rng.getrandbits(32)]))
    return {"xid": xid, "prog": prog, "vers": vers, "proc": proc, "msg": m,
            "trigger": 24 + 8 + cl + 8 + vl - 1}      # index (in msg) of the last byte of the verifier


class XDR:
    def __init__(self, b):
        self.b, self.i = b, 0

    def u32(self):
        if self.i + 4 > len(self.b):
            raise ValueError("XDR: truncated at offset %d" % self.i)
        v = struct.unpack("!I", self.b[self.i:self.i + 4])[0]
        self.i += 4
        return v

    def string(self):
        n = self.u32()
        pad = (4 - n % 4) % 4
        if self.i + n + pad > len(self.b):
            raise ValueError("XDR: string of %d bytes overruns the message" % n)
        s = self.b[self.i:self.i + n]
        p = self.b[self.i + n:self.i + n + pad]
        if p != b"\0" * pad:
            raise ValueError("XDR: string padding not zero")
        self.i += n + pad
        return s

    def done(self):
        return self.i == len(self.b)


def uaddr(ip, port):
    return (pkt.ip_s(ip) + ".%d.%d" % (port >> 8, port & 255)).encode()


def uaddr_is(s, ip, port):
    """Does the universal address string s denote (ip, port)?  Compared by value: an IPv6 address has several
    textual forms (::1.2.3.4 / ::102:304)."""
    try:
        host, hi, lo = s.decode("ascii").rsplit(".", 2)
        return pkt.ip(host) == ip and int(hi) == port >> 8 and int(lo) == port & 255 and hi.isdigit() and lo.isdigit()
    except Exception:
        return False


def expected_accept(c):
    """(accept_stat, kind) by the precedence of the property statement."""
    if not 2 <= c["vers"] <= 4:
        return 2, "prog_mismatch"
    if c["proc"] == 0:
        return 0, "null"
    if c["prog"] == PMAP:
        if c["proc"] == 3:
            return 0, "getport" if c["vers"] == 2 else "getaddr"
        if c["proc"] == 4:
            return 0, "dump"
        return 3, "proc_unavail"
    return 1, "prog_unavail"


def check_reply(rep, c, dst_ip, dst_port, tcp):
    """rep: application payload of the reply (TCP: with record mark)."""
    errs = []
    if rep is None:
        return ["no_reply call not answered"]
    if tcp:
        if len(rep) < 4:
            return ["record mark missing"]
        rm = struct.unpack("!I", rep[:4])[0]
        if not rm & 0x80000000:
            errs.append("record_mark last-fragment bit not set")
        if rm & 0x7FFFFFFF != len(rep) - 4:
            errs.append("record_mark length %d != %d bytes that follow" % (rm & 0x7FFFFFFF, len(rep) - 4))
        rep = rep[4:]
    if len(rep) % 4:
        errs.append("alignment reply length %d is not a multiple of 4" % len(rep))
    x = XDR(rep)
    try:
        xid, mtype, rstat = x.u32(), x.u32(), x.u32()
        if xid != c["xid"]:
            errs.append("xid %08x != call's %08x" % (xid, c["xid"]))
        if mtype != 1:
            errs.append("msg_type %d is not REPLY" % mtype)
        if rstat != 0:
            errs.append("reply_stat %d is not MSG_ACCEPTED" % rstat)
            return errs
        vf, vl = x.u32(), x.u32()
        if (vf, vl) != (0, 0):
            errs.append("verifier (%d,%d) is not the null verifier" % (vf, vl))
            return errs
        astat = x.u32()
        want, kind = expected_accept(c)
        if astat != want:
            errs.append("accept_stat %d, expected %d (%s) for prog %d vers %d proc %d" % (astat, want, kind, c["prog"], c["vers"], c["proc"]))
            return errs
        v6 = len(dst_ip) == 16
        if kind == "prog_mismatch":
            lo, hi = x.u32(), x.u32()
            if (lo, hi) != (2, 4):
                errs.append("prog_mismatch range (%d,%d) != (2,4)" % (lo, hi))
        elif kind == "getport":
            p = x.u32()
            if p != dst_port:
                errs.append("getport advertises port %d, client contacted %d" % (p, dst_port))
        elif kind == "getaddr":
            s = x.string()
            if not uaddr_is(s, dst_ip, dst_port):
                errs.append("getaddr advertises %r, client contacted %r" % (s, uaddr(dst_ip, dst_port)))
        elif kind == "dump":
            n = 0
            while True:
                more = x.u32()
                if more == 0:
                    break
                if more != 1:
                    errs.append("dump value-follows flag %d" % more)
                    break
                n += 1
                prog, vers = x.u32(), x.u32()
                if c["vers"] == 2:
                    prot, port = x.u32(), x.u32()
                    if port != dst_port:
                        errs.append("dump entry advertises port %d, client contacted %d" % (port, dst_port))
                    if prot not in (6, 17):
                        errs.append("dump entry protocol %d" % prot)
                else:
                    netid, addr, owner = x.string(), x.string(), x.string()
                    if not uaddr_is(addr, dst_ip, dst_port):
                        errs.append("dump entry advertises %r, client contacted %r" % (addr, uaddr(dst_ip, dst_port)))
                    if netid.endswith(b"6") != v6 or netid.rstrip(b"6") not in (b"tcp", b"udp"):
                        errs.append("dump entry netid %r does not match IPv%d" % (netid, 6 if v6 else 4))
                if n > 64:
                    errs.append("dump list does not terminate")
                    break
            if n == 0:
                errs.append("dump list is empty")
        if not x.done():
            errs.append("trailing %d bytes after the reply body" % (len(rep) - x.i))
    except ValueError as e:
        errs.append(str(e))
    return errs


def is_rpc_reply(rep, xid, tcp):
    if rep is None:
        return False
    if tcp:
        rep = rep[4:]
    return len(rep) >= 8 and rep[:8] == struct.pack("!II", xid, 1)


def parse_call(msg, tcp):
    """(xid, prog, vers, proc) of a call, or None."""
    if tcp:
        msg = msg[4:]
    if len(msg) < 24:
        return None
    xid, mtype, rv, prog, vers, proc = struct.unpack("!IIIIII", msg[:24])
    return {"xid": xid, "prog": prog, "vers": vers, "proc": proc}


def canon(rep, tcp, c):
    """Canonical form of a reply with the endpoint-carrying fields blanked (C19).  c = parse_call(request)."""
    if rep is None:
        return None
    body = rep[4:] if tcp else rep
    if c is None or len(body) < 24:
        return ("raw", rep)
    x = XDR(body)
    try:
        head = tuple(x.u32() for _ in range(6))
        if head[1] != 1 or head[2] != 0 or head[5] != 0:
            return ("rpc", head, body[24:])
        kind = expected_accept(c)[1]
        if kind == "getport":
            x.u32()
            out = ("getport",)
        elif kind == "getaddr":
            x.string()
            out = ("getaddr",)
        elif kind == "dump":
            ents = []
            while x.u32() == 1:
                prog, vers = x.u32(), x.u32()
                if c["vers"] == 2:
                    ents.append((prog, vers, x.u32()))
                    x.u32()
                else:
                    netid = x.string()
                    x.string()
                    ents.append((prog, vers, netid.rstrip(b"6"), x.string()))
            out = ("dump", tuple(ents))
        else:
            out = ("other", body[24:])
            x.i = len(body)
        if not x.done():
            return ("raw", rep)
        rm = (rep[0] & 0x80,) if tcp else ()
        return ("rpc", head, out, rm)
    except ValueError:
        return ("raw", rep)
