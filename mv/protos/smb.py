"""Own NBSS / SMB1 / SMB2 codecs: request generators and response oracle (C17)."""
import struct

SMB2_SUPPORTED = [0x0202, 0x0210, 0x02FF, 0x0300, 0x0302, 0x0310, 0x0311]
SMB1_DIALECTS = [b"PC NETWORK PROGRAM 1.0", b"LANMAN1.0", b"Windows for Workgroups 3.1a", b"LM1.2X002", b"LANMAN2.1",
                 b"NT LM 0.12", b"SMB 2.002", b"SMB 2.???", b"MICROSOFT NETWORKS 1.03", b"Samba", b"XENIX CORE"]


def nbss(payload, length=None, typ=0):
    n = len(payload) if length is None else length
    return bytes([typ, (n >> 16) & 1]) + struct.pack("!H", n & 0xFFFF) + payload


def smb1_header(cmd, flags=0x18, flags2=0xC853, pid_high=0, tid=0, pid_low=0, uid=0, mid=0, status=0, sig=b"\0" * 8):
    return b"\xffSMB" + bytes([cmd]) + struct.pack("<IBHH", status, flags, flags2, pid_high) + sig + b"\0\0" + \
        struct.pack("<HHHH", tid, pid_low, uid, mid)


def smb1_negotiate_body(dialects, fmt=2):
    d = b"".join(bytes([fmt]) + x + b"\0" for x in dialects)
    return b"\x00" + struct.pack("<H", len(d)) + d


def smb1_session_setup_body(blob, extra=b"\0\0\0"):
    words = struct.pack("<BBHHHHIHII", 0xFF, 0, 0, 0xFFFF, 2, 1, 0, len(blob), 0, 0x800000D4)
    data = blob + extra
    return bytes([12]) + words + struct.pack("<H", len(data)) + data


def smb2_header(cmd, flags=0, msgid=0, asyncid=0, sessid=0, credits=1, status=0, sig=b"\0" * 16, nextcmd=0, charge=0):
    return b"\xfeSMB" + struct.pack("<HHIHHIIQQQ", 64, charge, status, cmd, credits, flags, nextcmd, msgid, asyncid,
                                    sessid) + sig


def smb2_negotiate_body(dialects, count=None, secmode=1, caps=0, guid=b"\x11" * 16):
    return struct.pack("<HHHHI", 36, len(dialects) if count is None else count, secmode, 0, caps) + guid + b"\0" * 8 + \
        b"".join(struct.pack("<H", d) for d in dialects)


def smb2_session_setup_body(blob, offset=0x58):
    return struct.pack("<HBBIIHHQ", 25, 0, 1, 0, 0, offset, len(blob), 0) + blob


def rnd_ids(rng):
    pick = lambda bits: rng.choice([0, 1, (1 << bits) - 1, 1 << (bits - 1), rng.getrandbits(bits)])
    return {"pid_high": pick(16), "tid": pick(16), "pid_low": pick(16), "uid": pick(16), "mid": pick(16),
            "msgid": pick(64), "asyncid": pick(64), "sessid": pick(64)}


def gen_request(rng, kind=None):
    """-> dict(kind, payload, ids, ...) for a request that must be answered."""
    kind = kind or rng.choice(["smb1_neg", "smb1_sess", "smb2_neg", "smb2_sess"])
    ids = rnd_ids(rng)
    r = {"kind": kind, "ids": ids}
    if kind == "smb1_neg":
        n = rng.randrange(1, 13) if rng.random() < 0.93 else rng.choice([40, 64, 100, 150])       # long lists: requests beyond one MTU
        def unknown():
            k = rng.random()
            if k < 0.5:
                return bytes(rng.choice(b"ABCDEFXYZ 0123.") for _ in range(rng.randrange(1, 12)))
            if k < 0.8:
                # dialect names are byte strings: anything but NUL, of any length (localised / vendor names, garbage)
                return bytes(rng.randrange(1, 256) for _ in range(rng.choice([1, 2, 31, 32, 33, rng.randrange(1, 64)])))
            return bytes(rng.choice(b"abcXYZ019 .") for _ in range(rng.randrange(20, 40))) + bytes(rng.randrange(0x80, 0x100) for _ in range(rng.randrange(1, 6)))
        dl = [rng.choice(SMB1_DIALECTS + [unknown(), unknown()]) for _ in range(n)]
        rng.shuffle(dl)
        while len(dl) > 1 and sum(len(x) + 2 for x in dl) > 3300:        # frames are bounded by the 4096-byte capture buffer
            dl.pop()
        r["dialects"] = dl
        h = smb1_header(0x72, flags=rng.choice([0x18, 0x08, 0x00, 0x10, 0x7F]), flags2=rng.getrandbits(16),
                        pid_high=ids["pid_high"], tid=ids["tid"], pid_low=ids["pid_low"], uid=ids["uid"], mid=ids["mid"])
        r["payload"] = nbss(h + smb1_negotiate_body(dl))
        r["cmd"] = 0x72
    elif kind == "smb1_sess":
        blob = bytes(rng.getrandbits(8) for _ in range(rng.choice([1, 2, 16, 74, 255, 256, 512, rng.randrange(1, 513), rng.randrange(1, 513), rng.randrange(513, 3500), rng.choice([1400, 1408, 1409, 1437, 1438, 1460, 1500, 2048, 3000])])))
        h = smb1_header(0x73, flags=rng.choice([0x18, 0x08, 0x00]), flags2=rng.getrandbits(16),
                        pid_high=ids["pid_high"], tid=ids["tid"], pid_low=ids["pid_low"], uid=ids["uid"], mid=ids["mid"])
        r["payload"] = nbss(h + smb1_session_setup_body(blob))
        r["cmd"] = 0x73
    elif kind == "smb2_neg":
        n = rng.randrange(1, 13)
        pool = SMB2_SUPPORTED + [0x0000, 0x0100, 0x0201, 0x0312, 0xFFFF, 0x0203]
        dl = rng.sample(pool, min(n, len(pool)))
        if rng.random() < 0.07:
            # hundreds of dialects (mostly unknown revisions): a request longer than one MTU
            dl = [rng.choice([0x0000, 0x0100, 0x0201, 0x0312, 0xFFFF, 0x0203, rng.getrandbits(16) | 0x4000]) for _ in range(rng.choice([300, 698, 699, 700, 900]))]
        if not any(d in SMB2_SUPPORTED for d in dl):
            dl[rng.randrange(len(dl))] = rng.choice(SMB2_SUPPORTED)
        if rng.random() < 0.3:
            for _ in range(rng.randrange(1, 4)):
                dl.insert(rng.randrange(len(dl) + 1), rng.choice(dl))
        r["dialects"] = dl
        h = smb2_header(0, flags=rng.choice([0, 2, 4, 8, 0x10000000]) & ~1, msgid=ids["msgid"], asyncid=ids["asyncid"],
                        sessid=ids["sessid"], credits=rng.getrandbits(16))
        r["payload"] = nbss(h + smb2_negotiate_body(dl, guid=bytes(rng.getrandbits(8) for _ in range(16))))
        r["cmd"] = 0
    else:
        blob = bytes(rng.getrandbits(8) for _ in range(rng.choice([1, 2, 16, 74, 255, 256, 512, rng.randrange(1, 513), rng.randrange(1, 513), rng.randrange(513, 3500), rng.choice([1400, 1408, 1409, 1437, 1438, 1460, 1500, 2048, 3000])])))
        h = smb2_header(1, flags=0, msgid=ids["msgid"], asyncid=ids["asyncid"], sessid=ids["sessid"])
        r["payload"] = nbss(h + smb2_session_setup_body(blob))
        r["cmd"] = 1
    return r


def check_response(resp, req):
    errs = []
    kind, ids = req["kind"], req["ids"]
    if resp is None:
        return ["no_reply %s request not answered" % kind]
    if len(resp) < 4:
        return ["short response shorter than a NetBIOS session header"]
    if resp[0] != 0:
        errs.append("nbss type %d is not SESSION MESSAGE" % resp[0])
    n = ((resp[1] & 1) << 16) | struct.unpack("!H", resp[2:4])[0]
    if n != len(resp) - 4:
        errs.append("nbss length %d != %d bytes that follow" % (n, len(resp) - 4))
    m = resp[4:]
    if kind.startswith("smb1"):
        if len(m) < 33 or m[:4] != b"\xffSMB":
            return errs + ["smb1 header missing or truncated"]
        cmd = m[4]
        flags = m[9]
        pid_high = struct.unpack("<H", m[12:14])[0]
        tid, pid_low, uid, mid = struct.unpack("<HHHH", m[24:32])
        if cmd != req["cmd"]:
            errs.append("command %02x != request's %02x" % (cmd, req["cmd"]))
        if not flags & 0x80:
            errs.append("reply_flag not set in SMB1 flags %02x" % flags)
        for nme, got in (("pid_high", pid_high), ("tid", tid), ("pid_low", pid_low), ("uid", uid), ("mid", mid)):
            if got != ids[nme]:
                errs.append("echo %s %04x != request's %04x" % (nme, got, ids[nme]))
        body = m[32:]
        wc = body[0]
        if len(body) < 1 + 2 * wc + 2:
            return errs + ["smb1 parameter block truncated (WordCount %d)" % wc]
        words = body[1:1 + 2 * wc]
        bc = struct.unpack("<H", body[1 + 2 * wc:3 + 2 * wc])[0]
        data = body[3 + 2 * wc:]
        if bc != len(data):
            errs.append("bytecount %d != %d bytes that follow" % (bc, len(data)))
        if kind == "smb1_neg":
            if wc != 17:
                errs.append("wordcount %d != 17 for an extended-security negotiate response" % wc)
            else:
                idx = struct.unpack("<H", words[0:2])[0]
                if idx >= len(req["dialects"]):
                    errs.append("dialect index %d not among the %d dialects offered" % (idx, len(req["dialects"])))
                if len(data) < 16:
                    errs.append("bytecount data shorter than the server GUID")
        else:
            if wc == 4:
                blen = struct.unpack("<H", words[6:8])[0]
                if blen > len(data):
                    errs.append("security_blob_length %d exceeds the %d data bytes present" % (blen, len(data)))
            elif wc != 3:
                errs.append("wordcount %d for a session-setup response" % wc)
        return errs
    # SMB2
    if len(m) < 64 or m[:4] != b"\xfeSMB":
        return errs + ["smb2 header missing or truncated"]
    ssize, charge, status, cmd, credits, flags, nextcmd, msgid, asyncid, sessid = struct.unpack("<HHIHHIIQQQ", m[4:48])
    if ssize != 64:
        errs.append("smb2 header StructureSize %d" % ssize)
    if cmd != req["cmd"]:
        errs.append("command %04x != request's %04x" % (cmd, req["cmd"]))
    if not flags & 1:
        errs.append("reply_flag SMB2_FLAGS_SERVER_TO_REDIR not set (%08x)" % flags)
    for nme, got in (("msgid", msgid), ("asyncid", asyncid), ("sessid", sessid)):
        if got != ids[nme]:
            errs.append("echo %s %016x != request's %016x" % (nme, got, ids[nme]))
    body = m[64:]
    if kind == "smb2_neg":
        if len(body) < 64:
            return errs + ["smb2 negotiate response body truncated"]
        rev = struct.unpack("<H", body[4:6])[0]
        off, blen = struct.unpack("<HH", body[56:60])
        if rev not in req["dialects"]:
            errs.append("dialect revision %04x was not offered %s" % (rev, ["%04x" % d for d in req["dialects"]]))
    else:
        if len(body) < 8:
            return errs + ["smb2 session-setup response body truncated"]
        off, blen = struct.unpack("<HH", body[4:8])
    if blen:
        if off < 64 + (64 if kind == "smb2_neg" else 8):
            errs.append("security_offset %d points inside the fixed part" % off)
        elif off + blen != len(m):
            errs.append("security_buffer offset %d + length %d != message length %d (blob actually present: %d bytes)" % (
                off, blen, len(m), len(m) - off))
    return errs


def is_smb_response(resp):
    return resp is not None and len(resp) >= 8 and resp[0] == 0 and resp[4:8] in (b"\xffSMB", b"\xfeSMB")


def mask(resp):
    """Blank the wall-clock fields (SMB1 negotiate SystemTime; SMB2 negotiate SystemTime/ServerStartTime)."""
    if not is_smb_response(resp):
        return resp
    m = bytearray(resp)
    if resp[4:8] == b"\xffSMB" and len(resp) > 4 + 32 + 35 and resp[8] == 0x72 and resp[36] == 17:
        o = 4 + 32 + 1 + 23
        m[o:o + 8] = b"T" * 8
    if resp[4:8] == b"\xfeSMB" and len(resp) >= 4 + 64 + 64 and resp[16:18] == b"\0\0":
        o = 4 + 64 + 40
        m[o:o + 16] = b"T" * 16
    return bytes(m)
