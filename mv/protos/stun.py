"""Own STUN codec (RFC 3489 / 5389): binding-request generator and response oracle (C15)."""
import struct

MAGIC = b"\x21\x12\xa4\x42"


def attr(t, v, declared=None):
    return struct.pack("!HH", t, len(v) if declared is None else declared) + v


def msg(mtype, tid16, attrs=b"", length=None):
    return struct.pack("!HH", mtype, len(attrs) if length is None else length) + tid16 + attrs


def change_request(change_ip=False, change_port=True, extra_bits=0):
    return attr(3, struct.pack("!I", (4 if change_ip else 0) | (2 if change_port else 0) | extra_bits))


def gen_tid(rng, magic):
    t = bytes(rng.getrandbits(8) for _ in range(12))
    if not magic and rng.random() < 0.15:
        # 16 bytes that read as DNS counts + a question (the whole request then also parses as a DNS query)
        return rng.choice([bytes(16), bytes(8) + bytes(rng.getrandbits(8) for _ in range(8)),
                           b"\x00\x01\x00\x00\x00\x00\x00\x00\x02ab\x00\x00\x01\x00\x01", b"\x00\x01\x00\x00\x00\x00\x00\x00\x01a\x00\x00\x01\x00\x01\x00"])
    return (MAGIC if magic else bytes(rng.getrandbits(8) for _ in range(4))) + t


# attribute types a request may carry besides MAPPED-ADDRESS (1) and CHANGE-REQUEST (3), which the responder interprets:
# the IANA registry (USERNAME, MESSAGE-INTEGRITY, PADDING 0x26, RESPONSE-PORT 0x27, SOFTWARE, FINGERPRINT, ICE ...), the
# comprehension-optional twins of the interpreted ones (0x8001 / 0x8003), reserved and unassigned values
ATTR_TYPES = [0x0002, 0x0004, 0x0005, 0x0006, 0x0007, 0x0008, 0x0009, 0x000A, 0x0012, 0x0014, 0x0015, 0x0019, 0x0020, 0x0022, 0x0024, 0x0025,
              0x0026, 0x0027, 0x0027, 0x002A, 0x8001, 0x8003, 0x8001, 0x8003, 0x8022, 0x8023, 0x8027, 0x8028, 0x8029, 0x802A, 0x802B, 0x802C, 0xC057,
              0x0000, 0x0101, 0x0301, 0x7777, 0xFFFF]


def rnd_attr_type(rng):
    t = rng.choice(ATTR_TYPES) if rng.random() < 0.8 else rng.getrandbits(16)
    return t if t not in (1, 3) else 0x8022


def gen_attrs(rng, total=None):
    """Well-formed attribute list with 4-aligned lengths and types other than MAPPED-ADDRESS(1) /
    CHANGE-REQUEST(3).  If total is given the list is exactly that many bytes (total % 4 == 0, != 4...)."""
    out = b""
    if total is None:
        for _ in range(rng.randrange(0, 5)):
            t = rnd_attr_type(rng)
            l = 4 * rng.choice([0, 1, 1, 2, rng.randrange(0, 12)])
            out += attr(t, bytes(rng.getrandbits(8) for _ in range(l)))
        return out
    left = total
    while left > 0:
        if left < 4:
            raise ValueError("total must be a multiple of 4")
        l = min(left - 4, 4 * rng.choice([1, 1, 2, rng.randrange(0, 40), rng.randrange(0, 40)]))
        if left - 4 - l in (1, 2, 3):
            l = left - 4
        t = rnd_attr_type(rng)
        out += attr(t, bytes(rng.getrandbits(8) for _ in range(l)))
        left -= 4 + l
    return out


def gen_request(rng, form=None):
    """Binding request in one of the forms the signature set recognises, as
    (payload, tid16, number of change-port CHANGE-REQUEST attributes)."""
    form = form or rng.choice(["magic_empty", "magic_long", "magic_long_cr", "legacy_empty", "legacy_cr", "magic_cr8"])
    if form == "magic_empty":
        tid = gen_tid(rng, True)
        return msg(1, tid), tid, 0
    if form == "legacy_empty":
        tid = gen_tid(rng, False)
        return msg(1, tid), tid, 0
    if form in ("legacy_cr", "magic_cr8"):
        tid = gen_tid(rng, form == "magic_cr8")
        cp = rng.random() < 0.6
        a = struct.pack("!HH", 3, 4) + b"\0\0\0" + bytes([(2 if cp else 0) | (4 if rng.random() < 0.3 else 0)])
        return msg(1, tid, a), tid, 1 if cp else 0
    # long forms: total attribute length >= 0x100 so that the compiled matcher also identifies them
    tid = gen_tid(rng, True)
    total = 4 * rng.randrange(0x40, 0x100)
    k = 0
    if form == "magic_long_cr":
        cp = rng.random() < 0.7
        cr = change_request(change_ip=rng.random() < 0.3, change_port=cp)
        rest = gen_attrs(rng, total - 8)
        # CHANGE-REQUEST first or last; never directly followed by fewer than... (attribute walk needs > 4 bytes left)
        a = cr + rest if rng.random() < 0.5 else rest + cr
        k = 1 if cp else 0
    else:
        a = gen_attrs(rng, total)
    return msg(1, tid, a), tid, k


def parse_attrs(body):
    out, i = [], 0
    while i + 4 <= len(body):
        t, l = struct.unpack("!HH", body[i:i + 4])
        if i + 4 + l > len(body):
            return None
        out.append((t, body[i + 4:i + 4 + l]))
        i += 4 + l + ((4 - l % 4) % 4)
    if i < len(body):
        return None
    return out


def check_response(resp, tid16, src_ip, src_port):
    errs = []
    if resp is None:
        return ["no_reply binding request not answered"]
    if len(resp) < 20:
        return ["short response shorter than a STUN header"]
    mtype, mlen = struct.unpack("!HH", resp[:4])
    if mtype != 0x0101:
        errs.append("type %04x is not Binding Success Response (0101)" % mtype)
    if resp[4:20] != tid16:
        errs.append("transaction id %s != request's %s" % (resp[4:20].hex(), tid16.hex()))
    if mlen != len(resp) - 20:
        errs.append("length %d != %d attribute bytes that follow" % (mlen, len(resp) - 20))
        return errs
    attrs = parse_attrs(resp[20:])
    if attrs is None:
        errs.append("attributes do not parse as TLVs")
        return errs
    ma = [v for t, v in attrs if t == 1]
    if len(ma) != 1:
        errs.append("mapped %d MAPPED-ADDRESS attributes" % len(ma))
        return errs
    v = ma[0]
    fam = 1 if len(src_ip) == 4 else 2
    if len(v) != 4 + len(src_ip):
        errs.append("mapped attribute value is %d bytes for family %d" % (len(v), fam))
        return errs
    if v[1] != fam:
        errs.append("mapped family %d != %d" % (v[1], fam))
    if struct.unpack("!H", v[2:4])[0] != src_port:
        errs.append("mapped port %d != source port %d" % (struct.unpack("!H", v[2:4])[0], src_port))
    if v[4:] != src_ip:
        errs.append("mapped address %s != source address %s" % (v[4:].hex(), src_ip.hex()))
    return errs


def is_stun_response(resp):
    return resp is not None and len(resp) >= 20 and resp[0] == 0x01 and resp[1] in (0x01, 0x11) and \
        struct.unpack("!H", resp[2:4])[0] == len(resp) - 20


def mask(resp):
    """Remove MAPPED-ADDRESS and fix up the length, for C19."""
    if not is_stun_response(resp):
        return resp
    attrs = parse_attrs(resp[20:])
    if attrs is None:
        return resp
    body = b"".join(attr(t, v) + b"\0" * ((4 - len(v) % 4) % 4) for t, v in attrs if t != 1)
    return resp[:2] + struct.pack("!H", len(body)) + resp[4:20] + body
