"""HTTP request grammar (generator + single-fault corruptions) and response oracle (C13)."""
import re

VERBS = ["GET", "PUT", "POST", "HEAD", "DELETE", "CONNECT", "OPTIONS", "TRACE", "PATCH"]
TOKEN = b"abcdefghijklmnopqrstuvwxyzABCDEFGHIJKLMNOPQRSTUVWXYZ0123456789-_"


def _bytes_excluding(rng, n, excl):
    out = bytearray()
    while len(out) < n:
        b = rng.randrange(256)
        if b not in excl:
            out.append(b)
    return bytes(out)


def gen_parts(rng, verb=None, max_target=40, max_headers=4, eol=None):
    """A request as a structured dict (so that faults can be injected at known places)."""
    verb = verb or rng.choice(VERBS)
    kind = rng.randrange(4)
    if kind == 0:
        target = b"/"
    elif kind == 1:
        target = b"/" + bytes(rng.choice(TOKEN + b"/.?=&%") for _ in range(rng.randrange(1, max_target)))
    else:
        target = b"/" + _bytes_excluding(rng, rng.randrange(0, max_target), (0x20, 0x0D, 0x0A))
    version = (str(rng.choice([0, 1, 2, 9, 10, 11])) + "." + str(rng.choice([0, 1, 9, 10]))).encode()
    headers = []
    for _ in range(rng.randrange(0, max_headers + 1)):
        k = rng.randrange(5)
        if k == 0:
            # the headers the responder knows by name, in every legal shape: any case, empty / blank / padded values
            headers.append((rng.choice([b"Host", b"Host", b"host", b"HOST", b"hOsT"]),
                            rng.choice([b" example.com", b" example.com", b"", b" ", b"   ", b"\t", b"example.com", b" example.com:8080 ", b" [::1]", b" " + bytes(rng.choice(TOKEN) for _ in range(rng.randrange(1, 300)))])))
        elif k == 1:
            headers.append((rng.choice([b"Content-Length", b"content-length", b"CONTENT-LENGTH"]),
                            rng.choice([b" %d" % rng.randrange(100), b"", b" ", b" 0", b" -1", b" 18446744073709551616", b" 4294967296", b" 1e3", b" 12 ", b" 0x10"])))
        elif k == 2:
            headers.append((rng.choice([b"Content-Type", b"content-type"]), rng.choice([b" text/plain", b"", b" ", b" a/b; charset=\xff"])))
        elif k == 3:
            name = bytes(rng.choice(TOKEN) for _ in range(rng.randrange(1, 12)))
            headers.append((name, _bytes_excluding(rng, rng.randrange(0, 20), (0x0D, 0x0A))))
        else:
            name = _bytes_excluding(rng, rng.randrange(1, 8), (0x0D, 0x0A, 0x3A))
            headers.append((name, b" v"))
    if rng.random() < 0.06:
        # a request that does not fit one 1500-byte frame (long cookie / long target): jumbo frames, coalesced captures
        if rng.random() < 0.5:
            headers.insert(rng.randrange(len(headers) + 1), (b"Cookie", b" " + bytes(rng.choice(TOKEN + b"=; ") for _ in range(rng.randrange(1300, 3600)))))
        else:
            target = b"/" + bytes(rng.choice(TOKEN + b"/.?=&%") for _ in range(rng.randrange(1300, 3600)))
    if eol is None:
        eol = rng.choice([b"\r\n", b"\n", None])
    n = len(headers) + 2
    eols = [eol if eol is not None else rng.choice([b"\r\n", b"\n"]) for _ in range(n)]
    return {"verb": verb.encode(), "target": target, "version": version, "headers": headers, "eols": eols}


def build(p):
    out = p["verb"] + b" " + p["target"] + b" HTTP/" + p["version"] + p["eols"][0]
    for (k, v), e in zip(p["headers"], p["eols"][1:]):
        out += k + b":" + v + e
    out += p["eols"][-1]
    return out


def gen(rng, **kw):
    return build(gen_parts(rng, **kw))


FAULTS = ["unknown_method", "lowercase_method", "truncated_method", "no_sp_after_method", "no_http", "misspelt_http",
          "nondigit_major", "nondigit_minor", "junk_after_version", "header_no_colon", "folded_header", "no_final_empty_line",
          "prefix"]


def fault(rng, p, kind):
    """A request with exactly one grammar fault; returns bytes (never a valid request)."""
    q = dict(p)
    q["headers"] = list(p["headers"])
    q["eols"] = list(p["eols"])
    if kind == "unknown_method":
        q["verb"] = rng.choice([b"BREW", b"GETS", b"PROPFIND", b"XGET", b"G3T", b"POS", b"TRACK"])
        return build(q)
    if kind == "lowercase_method":
        q["verb"] = p["verb"].lower() if rng.random() < 0.5 else p["verb"][:1] + p["verb"][1:].lower()
        return build(q)
    if kind == "truncated_method":
        q["verb"] = p["verb"][:rng.randrange(1, len(p["verb"]))]
        if q["verb"].decode() in VERBS:
            q["verb"] = b"GE"
        return build(q)
    if kind == "no_sp_after_method":
        return build(p).replace(p["verb"] + b" /", p["verb"] + b"/", 1)
    full = build(p)
    line_end = len(p["verb"]) + 1 + len(p["target"])
    head, rest = full[:line_end], full[line_end:]   # rest starts with b" HTTP/"
    if kind == "no_http":
        return head + b" " + rest[len(b" HTTP/"):]
    if kind == "misspelt_http":
        bad = rng.choice([b" HTTX/", b" http/", b" HTTP:", b" HTP/", b" HTTTP/", b"  HTTP/"])
        return head + bad + rest[len(b" HTTP/"):]
    if kind == "nondigit_major":
        q["version"] = rng.choice([b"a", b"1x", b" 1", b"-1"]) + b"." + b"1"
        return build(q)
    if kind == "nondigit_minor":
        q["version"] = b"1." + rng.choice([b"x", b"1a", b"1 ", b"1;"])
        return build(q)
    if kind == "junk_after_version":
        q["version"] = p["version"] + rng.choice([b" ", b" x", b"\t"])
        return build(q)
    if kind == "header_no_colon":
        q["headers"].insert(rng.randrange(len(q["headers"]) + 1), (None, None))
        # (with the request's own line ends: CR LF, bare LF or a mix)
        eol = lambda: rng.choice([b"\r\n", q["eols"][0], q["eols"][0]])
        out = q["verb"] + b" " + q["target"] + b" HTTP/" + q["version"] + q["eols"][0]
        for k, v in q["headers"]:
            if k is None:
                out += rng.choice([b"Host example.com", b"x", b"no-colon-here", b"\x80\x81", b"Host example.org"]) + eol()
            else:
                out += k + b":" + v + eol()
        return out + eol()
    if kind == "folded_header":
        # obsolete line folding: a header value continued on a line that starts with SP / HTAB (and holds no colon) is a
        # header line without a colon for this grammar
        pos = rng.randrange(len(q["headers"]) + 1)
        out = q["verb"] + b" " + q["target"] + b" HTTP/" + q["version"] + q["eols"][0]
        hs = list(zip(q["headers"], q["eols"][1:]))
        hs.insert(pos, ((b"X-List", b" a,"), None))
        for (k, v), e in hs:
            if e is None:
                e = rng.choice([b"\r\n", b"\n"])
                out += k + b":" + v + e + rng.choice([b" ", b"\t", b"  "]) + rng.choice([b"b", b"b, c", b"continued value"]) + e
            else:
                out += k + b":" + v + e
        return out + q["eols"][-1]
    if kind == "no_final_empty_line":
        return full[:-len(p["eols"][-1])]
    if kind == "prefix":
        return full[:rng.randrange(0, len(full))]
    raise ValueError(kind)


def is_http_response(payload):
    return payload is not None and payload.startswith(b"HTTP/")


def check_response(payload):
    """Oracle for the reply to a complete request; returns list of error strings."""
    errs = []
    if payload is None:
        return ["no_reply complete request not answered"]
    if not payload.startswith(b"HTTP/1.1 401"):
        return ["status reply does not start with 'HTTP/1.1 401': %r" % payload[:40]]
    m = re.search(rb"\r?\n\r?\n", payload)
    if not m:
        return ["framing no empty line terminating the header section"]
    head, body = payload[:m.start()], payload[m.end():]
    lines = re.split(rb"\r?\n", head)
    hdrs = {}
    for l in lines[1:]:
        if b":" not in l:
            errs.append("header line without colon: %r" % l[:40])
            continue
        k, v = l.split(b":", 1)
        hdrs.setdefault(k.strip().lower(), []).append(v.strip())
    if b"www-authenticate" not in hdrs:
        errs.append("challenge no WWW-Authenticate header")
    cl = hdrs.get(b"content-length")
    if not cl:
        errs.append("content_length header missing")
    elif len(cl) != 1 or not cl[0].isdigit():
        errs.append("content_length not a single number: %r" % cl)
    elif int(cl[0]) != len(body):
        errs.append("content_length %d but %d body bytes follow the empty line" % (int(cl[0]), len(body)))
    return errs


def mask(payload):
    """Blank the wall-clock field (Date header value) of a response, structurally."""
    if not is_http_response(payload):
        return payload
    m = re.search(rb"\r?\n\r?\n", payload)
    end = m.start() if m else len(payload)
    head = re.sub(rb"(?im)^(date:)[^\r\n]*", rb"\1 <masked>", payload[:end])
    return head + payload[end:]


def trigger_index(req):
    """Index of the byte that completes a request (LF of the empty line)."""
    return len(req) - 1
