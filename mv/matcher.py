"""Exhaustive exploration of the product (compiled matcher of the implementation) x (reference signature automaton).

The real matcher is stepped through the driver's S command: every reachable product state is tried with all 256 byte
values and with the end-of-input symbol.  Output: the product graph, and the divergence edges (real id != reference id).
"""
import collections

from . import sigref
from .sigref import NOMATCH, SIGS, ALL

MAXPOS = 40


def names(idxs):
    return tuple(sorted(SIGS[i][0] for i in idxs))


class Node:
    __slots__ = ("rs", "alive", "pos", "path", "out", "idx", "rmatch", "ralive")

    def __init__(self, rs, alive, pos, path, idx):
        self.rs, self.alive, self.pos, self.path, self.idx = rs, alive, pos, path, idx
        self.out = {}       # dest node idx -> bitmask of bytes
        self.rmatch = False  # some byte / END makes the real matcher report a match here
        self.ralive = False  # the real matcher can still report a match on some continuation


class Edge:
    """A divergence: after following `node` (product state), byte set `mask` (or END) gives real id `rid` while the
    reference completes `exp` (tuple of signature names, empty = nothing completes)."""
    __slots__ = ("node", "mask", "end", "rid", "exp", "kind", "dest")

    def __init__(self, node, mask, end, rid, exp, kind=None, dest=None):
        self.node, self.mask, self.end, self.rid, self.exp, self.dest = node, mask, end, rid, exp, dest
        exp_ids = set(s[1] for s in SIGS if s[0] in exp)
        if kind:
            self.kind = kind
        elif exp and rid == NOMATCH:
            self.kind = "miss"
        elif exp and rid not in exp_ids:
            self.kind = "wrong"
        else:
            self.kind = "false_positive"


def mask_ranges(mask):
    out, b = [], 0
    while b < 256:
        if mask >> b & 1:
            s = b
            while b < 256 and mask >> b & 1:
                b += 1
            out.append("%02x" % s if b - 1 == s else "%02x-%02x" % (s, b - 1))
        else:
            b += 1
    return ",".join(out)


def explore(drv):
    """-> (nodes, divergence edges, number of real steps)"""
    nodes = []
    index = {}
    q = collections.deque()

    def get(rs, alive, pos, path):
        k = (rs, alive, pos)
        if k not in index:
            n = Node(rs, alive, pos, path, len(nodes))
            index[k] = n.idx
            nodes.append(n)
            q.append(n)
        return nodes[index[k]]

    get(0, ALL, 0, b"")
    steps = 0
    raw_div = collections.OrderedDict()     # (node idx, end?, rid, exp) -> mask
    while q:
        n = q.popleft()
        # end-of-input (datagram semantics), only meaningful if nothing matched so far (true for every node)
        _, eid = drv.step(n.rs, None)
        steps += 1
        if eid != NOMATCH:
            n.rmatch = True
        rend = sigref.end(n.alive, n.pos)
        rids = set(SIGS[i][1] for i in rend)
        if (eid == NOMATCH and rids) or (eid != NOMATCH and eid not in rids):
            raw_div[(n.idx, True, eid, names(rend))] = 0
        if n.pos >= MAXPOS:
            continue
        for b in range(256):
            ns, rid = drv.step(n.rs, b)
            steps += 1
            if rid != NOMATCH:
                n.rmatch = True
            na, done = sigref.step(n.alive, n.pos, b)
            dids = set(SIGS[i][1] for i in done)
            if rid != NOMATCH or done:
                # the stream is decided here by at least one side
                first = SIGS[done[0]][1] if done else None
                if rid == NOMATCH or rid not in dids:
                    k = (n.idx, False, rid, names(done))
                    raw_div[k] = raw_div.get(k, 0) | (1 << b)
                continue
            if not na and n.alive:
                # reference is dead from here on: keep following the real matcher alone (it must never match)
                pass
            d = get(ns, na, n.pos + 1, n.path + bytes([b]))
            n.out[d.idx] = n.out.get(d.idx, 0) | (1 << b)
    # which product states can still lead to a match of the real matcher?
    pred = predecessors(nodes)
    st = [n.idx for n in nodes if n.rmatch]
    for i in st:
        nodes[i].ralive = True
    while st:
        x = st.pop()
        for p, _m in pred[x]:
            if not nodes[p].ralive:
                nodes[p].ralive = True
                st.append(p)
    edges = []
    # (a)/(c) completion-time divergences, except misses that are mere consequences of an earlier death edge
    for (i, end, rid, exp), m in raw_div.items():
        e = Edge(nodes[i], m, end, rid, exp)
        if e.kind == "miss" and not nodes[i].ralive:
            continue
        edges.append(e)
    # (b) death edges: the real matcher can never match again although the reference still can
    for n in nodes:
        if not n.ralive:
            continue
        for d, m in n.out.items():
            dn = nodes[d]
            if not dn.ralive and dn.alive:
                edges.append(Edge(n, m, False, NOMATCH, names(dn.alive), kind="dead", dest=dn))
    return nodes, edges, steps


def alive_path(nodes, node):
    """Implementation-independent description of the prefixes leading to a product state: for each prefix length,
    the set of signatures still matching."""
    alive, pos, out = ALL, 0, []
    for b in node.path:
        alive, _ = sigref.step(alive, pos, b)
        pos += 1
        out.append(",".join(names(alive)) or "-")
    return out


def edge_key(nodes, e):
    """Canonical, implementation-independent key of a divergence edge."""
    ap = alive_path(nodes, e.node)
    last = ap[-1] if ap else "START"
    return "%s|pos=%d|after=[%s]|%s|ref=%s|real=%s" % (e.kind, e.node.pos, last, "END" if e.end else "byte", "+".join(e.exp) or "-",
                                                     sigref.NAMES.get(e.rid, str(e.rid)))


def predecessors(nodes):
    pred = collections.defaultdict(list)
    for n in nodes:
        for d, m in n.out.items():
            pred[d].append((n.idx, m))
    return pred


def can_reach(nodes, target_idx):
    pred = predecessors(nodes)
    seen = {target_idx}
    st = [target_idx]
    while st:
        x = st.pop()
        for p, _m in pred[x]:
            if p not in seen:
                seen.add(p)
                st.append(p)
    return seen


def solve_prefix(nodes, target, template, rng, final_mask=None):
    """Concrete byte string following the product graph from the start to node `target` whose byte at every position
    i lies in template[i] (bitmask; missing positions = any byte); then one more byte from final_mask & template.
    Returns bytes or None."""
    reach = can_reach(nodes, target.idx)
    ANY = (1 << 256) - 1

    def pick(mask):
        bs = [b for b in range(256) if mask >> b & 1]
        return rng.choice(bs)

    def dfs(n, acc):
        if n.idx == target.idx:
            if final_mask is None:
                return acc
            t = template[n.pos] if n.pos < len(template) else ANY
            m = final_mask & t
            if not m:
                return None
            return acc + bytes([pick(m)])
        t = template[n.pos] if n.pos < len(template) else ANY
        outs = [(d, m & t) for d, m in n.out.items() if d in reach and m & t]
        rng.shuffle(outs)
        for d, m in outs:
            r = dfs(nodes[d], acc + bytes([pick(m)]))
            if r is not None:
                return r
        return None

    return dfs(nodes[0], b"")
