"""Client side of a TCP exchange with the responder, at the frame boundary."""
from . import pkt
from .pkt import SYN, ACK, PSH, FIN, RST, URG, ECE, CWR


class Flow:
    def __init__(self, ctx, endp, sp, dp, isn=None):
        self.ctx, self.e, self.sp, self.dp = ctx, endp, sp, dp
        self.isn = ctx.rng.getrandbits(32) if isn is None else isn
        self.seq = (self.isn + 1) & 0xFFFFFFFF
        self.cookie = None
        self.ack = 0

    @classmethod
    def fresh(cls, ctx, endp, dp=None, **kw):
        """A flow on random ports whose tuple has not been used since the last table reset."""
        from . import gen
        dp = gen.rnd_port(ctx.rng) if dp is None else dp
        return cls(ctx, endp, ctx.fresh_flow(endp, gen.rnd_port(ctx.rng), dp), dp, **kw)

    def syn_frame(self, flags=SYN, seq=None, payload=b""):
        return self.e.tcp(self.sp, self.dp, self.isn if seq is None else seq, 0, flags, payload)

    def syn(self):
        """Send a SYN, learn the cookie from the SYN-ACK (None if not answered as expected).  If the cookie is already that
        of another flow of the current table (birthday collision, see Ctx.claim_cookie) the handshake is repeated from
        another source port."""
        for _attempt in range(4):
            r = self.ctx.send(self.syn_frame())
            if r.kind != "R":
                return None
            a = pkt.parse(r.reply)
            if a.get("flags") != (SYN | ACK):
                return None
            if self.ctx.claim_cookie(a.seq, (self.e.cip, self.e.sip, self.sp, self.dp)):
                break
            self.sp = self.ctx.fresh_flow(self.e, self.ctx.rng.getrandbits(16), self.dp)
        else:
            return None
        self.cookie = a.seq
        self.ack = (a.seq + 1) & 0xFFFFFFFF
        return self.cookie

    def data_frame(self, payload, ack=None, flags=PSH | ACK, seq=None):
        r = self.e.fuzz
        if r is not None and flags == PSH | ACK and r.random() < 0.12:
            # a segment "carrying PSH and ACK" is a data segment whatever else is set (FIN: write-and-half-close clients)
            flags |= r.choice([FIN, FIN, URG, ECE, CWR, FIN | URG, ECE | CWR, FIN | ECE | CWR | URG, 0x100, 0x100 | ECE])          # (0x100: the NS / AE bit)
        return self.e.tcp(self.sp, self.dp, self.seq if seq is None else seq, self.ack if ack is None else ack,
                          flags, payload)

    def data(self, payload, ack=None, flags=PSH | ACK):
        """Send one data segment; advances our sequence number; follows the responder's sequence space."""
        f = self.data_frame(payload, ack, flags)
        r = self.ctx.send(f)
        self.sent_seq = self.seq
        self.seq = (self.seq + len(payload)) & 0xFFFFFFFF
        if r.kind == "R":
            a = pkt.parse(r.reply)
            if "flags" in a and ack is None:
                self.ack = (a.seq + len(a.data)) & 0xFFFFFFFF
        return r

    def stream(self, segments):
        return [self.data(s) for s in segments]


def app_payload(res):
    """Application payload of a reply (UDP data / TCP data), or None."""
    if res.kind != "R":
        return None
    a = pkt.parse(res.reply)
    return a.get("data")


def cut(stream, cuts):
    """Split a byte string at the given sorted cut positions."""
    out, last = [], 0
    for c in cuts:
        out.append(stream[last:c])
        last = c
    out.append(stream[last:])
    return out
