"""Frame builders and parsers, independent of pnet/masscanned (stdlib only).

Everything here works on bytes.  Addresses are passed around as bytes
(6 / 4 / 16 bytes); helpers convert from/to text.
"""
import socket
import struct

FIN, SYN, RST, PSH, ACK, URG, ECE, CWR, NS = 1, 2, 4, 8, 16, 32, 64, 128, 256

ET_ARP, ET_IP4, ET_IP6 = 0x0806, 0x0800, 0x86DD
P_ICMP, P_TCP, P_UDP, P_ICMP6 = 1, 6, 17, 58

BCAST = b"\xff" * 6
ALLNODES_MAC = bytes.fromhex("333300000001")


def mac(s):
    return bytes(int(x, 16) for x in s.split(":"))


def mac_s(b):
    return ":".join("%02x" % x for x in b)


def ip(s):
    """text -> 4 or 16 bytes"""
    if ":" in s:
        return socket.inet_pton(socket.AF_INET6, s)
    return socket.inet_aton(s)


def ip_s(b):
    if len(b) == 4:
        return socket.inet_ntoa(b)
    return socket.inet_ntop(socket.AF_INET6, b)


def csum_fold(s):
    while s >> 16:
        s = (s & 0xFFFF) + (s >> 16)
    return s


def csum_sum(b):
    if len(b) % 2:
        b = b + b"\0"
    n = len(b) // 2
    return sum(struct.unpack("!%dH" % n, b)) if n else 0


def csum(b):
    """Internet checksum (RFC 1071) of b: the value to put in a zeroed field."""
    return (~csum_fold(csum_sum(b))) & 0xFFFF


def csum_ok(b):
    """True if b (checksum field included) sums to 0xFFFF."""
    return csum_fold(csum_sum(b)) == 0xFFFF


def eth(dst, src, typ, pl):
    return dst + src + struct.pack("!H", typ) + pl


def ip4(src, dst, proto, pl, ttl=64, ihl=5, tot=None, frag=0, ident=1, opts=b"", tos=0, fixsum=True, version=4):
    hl = 20 + len(opts)
    tot = hl + len(pl) if tot is None else tot
    h = struct.pack("!BBHHHBBH4s4s", (version << 4) | (ihl & 15), tos, tot & 0xFFFF, ident, frag, ttl, proto, 0, src, dst) + opts
    if fixsum:
        h = h[:10] + struct.pack("!H", csum(h)) + h[12:]
    return h + pl


def ip6(src, dst, nh, pl, hlim=64, plen=None, version=6, tc=0, fl=0):
    plen = len(pl) if plen is None else plen
    return struct.pack("!IHBB", (version << 28) | (tc << 20) | fl, plen & 0xFFFF, nh, hlim) + src + dst + pl


def pseudo(src, dst, proto, l):
    if len(src) == 16:
        return src + dst + struct.pack("!IHBB", l, 0, 0, proto)
    return src + dst + struct.pack("!BBH", 0, proto, l)


def udp(src, dst, sp, dp, pl, ulen=None, cs=None):
    ulen = 8 + len(pl) if ulen is None else ulen
    h = struct.pack("!HHHH", sp, dp, ulen & 0xFFFF, 0)
    if cs is None:
        cs = csum(pseudo(src, dst, P_UDP, 8 + len(pl)) + h + pl) or 0xFFFF
    return h[:6] + struct.pack("!H", cs) + pl


def udp_steer_sport(src, dst, dp, pl):
    """A source port for which the datagram's checksum computes to zero, i.e. is transmitted as 0xFFFF (RFC 768)."""
    h = struct.pack("!HHHH", 0, dp, 8 + len(pl), 0)
    s = csum_fold(csum_sum(pseudo(src, dst, P_UDP, 8 + len(pl)) + h + pl))
    return (0xFFFF - s) & 0xFFFF


def tcp(src, dst, sp, dp, seq, ack, flags, pl=b"", off=5, win=8192, opts=b"", urg=0, cs=None):
    h = struct.pack("!HHIIHHHH", sp, dp, seq & 0xFFFFFFFF, ack & 0xFFFFFFFF, ((off & 15) << 12) | (flags & 0x1FF), win, 0, urg) + opts
    if cs is None:
        cs = csum(pseudo(src, dst, P_TCP, len(h) + len(pl)) + h + pl)
    return h[:16] + struct.pack("!H", cs) + h[18:] + pl


def icmp4(typ, code, rest):
    h = struct.pack("!BBH", typ, code, 0) + rest
    return h[:2] + struct.pack("!H", csum(h)) + h[4:]


def icmp6(src, dst, typ, code, rest):
    h = struct.pack("!BBH", typ, code, 0) + rest
    c = csum(pseudo(src, dst, P_ICMP6, len(h)) + h)
    return h[:2] + struct.pack("!H", c) + h[4:]


def arp(op, sha, spa, tha, tpa, htype=1, ptype=0x0800, hlen=6, plen=4):
    return struct.pack("!HHBBH", htype, ptype, hlen, plen, op) + sha + spa + tha + tpa


def solicited_node(ip6addr):
    return bytes.fromhex("ff0200000000000000000001ff") + ip6addr[13:]


def solicited_mac(ip6addr):
    return b"\x33\x33\xff" + ip6addr[13:]


def mcast_mac4(ip4addr):
    return bytes([0x01, 0x00, 0x5E, ip4addr[1] & 0x7F, ip4addr[2], ip4addr[3]])


def rnd_ip4_opts(r):
    """A well-formed IPv4 option area (multiple of 4 bytes, at most 40): options never influence an answer."""
    k = r.randrange(7)
    if k == 0:
        o = b"\x94\x04" + bytes([r.getrandbits(8), r.getrandbits(8)])                    # router alert
    elif k == 1:
        o = b"\x01" * r.randrange(1, 8) + b"\x00"                                       # NOPs, end of list
    elif k == 2:
        n = r.randrange(1, 9)
        o = bytes([7, 3 + 4 * n, 4]) + bytes(4 * n)                                      # record route
    elif k == 3:
        n = r.randrange(1, 9)
        o = bytes([0x44, 4 + 4 * n, 5, r.choice([0, 1, 3])]) + bytes(4 * n)              # timestamp
    elif k == 4:
        o = bytes([0x82, 11]) + bytes(r.getrandbits(8) for _ in range(9))                # security
    elif k == 5:
        l = r.randrange(2, 39)
        o = bytes([r.choice([0x19, 0x5e, 0x9e, 0xde, 0x88]), l]) + bytes(r.getrandbits(8) for _ in range(l - 2))
    else:
        o = b"\x01\x01\x01\x00"
    return (o + bytes(-len(o) % 4))[:40]


def rnd_tcp_opts(r):
    """A well-formed TCP option area (multiple of 4 bytes, at most 40): options never influence an answer."""
    o = b""
    for _ in range(r.randrange(1, 4)):
        k = r.randrange(7)
        if k == 0:
            o += b"\x02\x04" + bytes([r.getrandbits(8), r.getrandbits(8)])               # MSS
        elif k == 1:
            o += b"\x01\x01\x08\x0a" + bytes(r.getrandbits(8) for _ in range(8))        # NOP NOP timestamp
        elif k == 2:
            o += b"\x04\x02\x01\x01"                                                   # SACK permitted
        elif k == 3:
            o += b"\x01\x03\x03" + bytes([r.randrange(15)])                             # window scale
        elif k == 4:
            o += b"\x01\x01\x05\x0a" + bytes(r.getrandbits(8) for _ in range(8))        # SACK block
        elif k == 5:
            l = r.randrange(2, 13)
            o += bytes([r.choice([0x1c, 0x1e, 0x22, 0xfd]), l]) + bytes(r.getrandbits(8) for _ in range(l - 2))
        else:
            o += b"\x01" * r.randrange(1, 4) + b"\x00"
            break
    o = o[:40]
    return o + bytes(-len(o) % 4) if len(o) % 4 else o


class Endp:
    """A (client, server) addressing context used to wrap L4 payloads into frames."""

    def __init__(self, cmac, smac, cip, sip, ttl=64, fuzz=None):
        self.cmac, self.smac, self.cip, self.sip, self.ttl = cmac, smac, cip, sip, ttl
        self.v6 = len(cip) == 16
        # fuzz: a random.Random; when set, header fields that must not influence any answer are drawn at random per
        # frame (IPv4 id / TOS / DF / MF / reserved flag / TTL, IPv6 traffic class / flow label / hop limit, TCP window / urgent pointer;
        # a datagram with MF set or a fragment offset that holds the whole message is processed like any other: the responder does not reassemble)
        self.fuzz = fuzz

    def l3(self, proto, l4):
        r = self.fuzz
        cmac = self.cmac
        if r is not None and proto in (P_TCP, P_UDP) and r.random() < 0.06:
            # multi-path: frames of one flow may arrive through another first-hop router (redundant gateways, failover);
            # a flow is its addresses and ports, never its Ethernet source
            if "cmac2" not in self.__dict__:
                self.cmac2 = bytes([self.cmac[0] & 0xFE]) + bytes(r.getrandbits(8) for _ in range(5))
            cmac = self.cmac2
        if self.v6:
            if r is not None and r.random() < 0.5:
                return eth(self.smac, cmac, ET_IP6, ip6(self.cip, self.sip, proto, l4, hlim=r.choice([1, 2, 64, 128, 255]), tc=r.getrandbits(8),
                                                             fl=r.getrandbits(20)))
            return eth(self.smac, cmac, ET_IP6, ip6(self.cip, self.sip, proto, l4, hlim=self.ttl))
        if r is not None and r.random() < 0.5:
            o = rnd_ip4_opts(r) if r.random() < 0.3 else b""
            return eth(self.smac, cmac, ET_IP4, ip4(self.cip, self.sip, proto, l4, ttl=r.choice([1, 2, 64, 128, 255]), ident=r.getrandbits(16),
                                                         frag=r.choice([0, 0x4000, 0, 0x4000, 0, 0x4000, 0x2000, 0x8000, 0x6000, 0xC000, 0x0001, 0x00B9, 0x1FFF, 0x2001, 0x4001]), tos=r.getrandbits(8), opts=o, ihl=5 + len(o) // 4))
        return eth(self.smac, cmac, ET_IP4, ip4(self.cip, self.sip, proto, l4, ttl=self.ttl))

    def udp(self, sp, dp, pl, cs=None):
        r = self.fuzz
        if r is not None and cs is None and not self.v6 and r.random() < 0.03:
            cs = 0                                       # IPv4: a sender may transmit no checksum at all
        return self.l3(P_UDP, udp(self.cip, self.sip, sp, dp, pl, cs=cs))

    def tcp(self, sp, dp, seq, ack, flags, pl=b"", **kw):
        r = self.fuzz
        if r is not None and "win" not in kw and r.random() < 0.5:
            kw["win"] = r.choice([0, 1, 1024, 29200, 65535, r.getrandbits(16)])
            if not flags & URG:
                kw.setdefault("urg", r.choice([0, 0, r.getrandbits(16)]))
        if r is not None and "opts" not in kw and "off" not in kw and r.random() < 0.15:
            kw["opts"] = rnd_tcp_opts(r)
            kw["off"] = 5 + len(kw["opts"]) // 4
        return self.l3(P_TCP, tcp(self.cip, self.sip, sp, dp, seq, ack, flags, pl, **kw))

    def echo(self, ident, seqn, data, code=0, typ=None):
        rest = struct.pack("!HH", ident, seqn) + data
        if self.v6:
            return self.l3(P_ICMP6, icmp6(self.cip, self.sip, 128 if typ is None else typ, code, rest))
        return self.l3(P_ICMP, icmp4(8 if typ is None else typ, code, rest))


class Parsed(dict):
    __getattr__ = dict.get


def parse(f):
    """Lenient structural parse of a frame; missing layers are simply absent.

    Keys: eth_dst eth_src etype | (arp) arp_* | (ip) v src dst proto l4 ip_hl ip_tot / ip_plen ttl |
    (tcp) sp dp seq ack flags off win data | (udp) sp dp ulen ucs data | (icmp) itype icode irest
    """
    d = Parsed()
    if len(f) < 14:
        return d
    d["eth_dst"], d["eth_src"] = f[0:6], f[6:12]
    d["etype"] = struct.unpack("!H", f[12:14])[0]
    p = f[14:]
    d["l3"] = p
    if d["etype"] == ET_ARP:
        if len(p) >= 28:
            d["arp_htype"], d["arp_ptype"], d["arp_hlen"], d["arp_plen"], d["arp_op"] = struct.unpack("!HHBBH", p[:8])
            d["arp_sha"], d["arp_spa"], d["arp_tha"], d["arp_tpa"] = p[8:14], p[14:18], p[18:24], p[24:28]
        return d
    if d["etype"] == ET_IP4:
        if len(p) < 20:
            return d
        d["v"] = 4
        d["ip_ver"] = p[0] >> 4
        d["ip_hl"] = (p[0] & 15) * 4
        d["ip_tot"] = struct.unpack("!H", p[2:4])[0]
        d["ip_id"] = struct.unpack("!H", p[4:6])[0]
        d["ip_frag"] = struct.unpack("!H", p[6:8])[0]
        d["ttl"] = p[8]
        d["proto"] = p[9]
        d["src"], d["dst"] = p[12:16], p[16:20]
        # same payload window as the implementation's parser library: starts after
        # max(20, ihl*4) bytes, holds total_length - ihl*4 bytes, clipped to the buffer
        start = 20 + max(d["ip_hl"] - 20, 0)
        plen = max(d["ip_tot"] - d["ip_hl"], 0)
        l4 = p[start:start + plen] if len(p) > start else b""
    elif d["etype"] == ET_IP6:
        if len(p) < 40:
            return d
        d["v"] = 6
        d["ip_ver"] = p[0] >> 4
        d["ip_plen"] = struct.unpack("!H", p[4:6])[0]
        d["proto"] = p[6]
        d["ttl"] = p[7]
        d["src"], d["dst"] = p[8:24], p[24:40]
        l4 = p[40:40 + d["ip_plen"]]
    else:
        return d
    d["l4"] = l4
    pr = d["proto"]
    if pr == P_TCP and len(l4) >= 20:
        sp, dp, seq, ack, of, win, cs, up = struct.unpack("!HHIIHHHH", l4[:20])
        off = of >> 12
        start = 20 + (off * 4 - 20 if off > 5 else 0)
        d.update(sp=sp, dp=dp, seq=seq, ack=ack, flags=of & 0x1FF, off=off, win=win, tcs=cs,
                 data=l4[start:] if len(l4) > start else b"")
    elif pr == P_UDP and len(l4) >= 8:
        sp, dp, ln, cs = struct.unpack("!HHHH", l4[:8])
        d.update(sp=sp, dp=dp, ulen=ln, ucs=cs, data=l4[8:])
    elif (pr == P_ICMP and d["v"] == 4 or pr == P_ICMP6 and d["v"] == 6) and len(l4) >= 4:
        d.update(itype=l4[0], icode=l4[1], ics=struct.unpack("!H", l4[2:4])[0], irest=l4[4:])
    return d


def summary(f):
    """Short human-readable description of a frame (for evidence samples)."""
    d = parse(f)
    if "etype" not in d:
        return "short(%d)" % len(f)
    s = "%s>%s " % (mac_s(d.eth_src), mac_s(d.eth_dst))
    if d.etype == ET_ARP:
        if "arp_op" in d:
            return s + "ARP op=%d %s->%s" % (d.arp_op, ip_s(d.arp_spa), ip_s(d.arp_tpa))
        return s + "ARP short"
    if "v" not in d:
        return s + "etype=%04x len=%d" % (d.etype, len(f))
    s += "IPv%d %s>%s p=%d " % (d.v, ip_s(d.src), ip_s(d.dst), d.proto)
    if "flags" in d:
        s += "TCP %d>%d fl=%03x seq=%d ack=%d len=%d" % (d.sp, d.dp, d.flags, d.seq, d.ack, len(d.data))
    elif "ulen" in d:
        s += "UDP %d>%d len=%d" % (d.sp, d.dp, len(d.data))
    elif "itype" in d:
        s += "ICMP t=%d c=%d len=%d" % (d.itype, d.icode, len(d.irest))
    else:
        s += "l4len=%d" % len(d.get("l4", b""))
    return s
