"""Canonical form of a reply for metamorphic comparisons: parsed header fields + application payload with
wall-clock fields blanked structurally (HTTP Date value, SMB time fields).  Checksums are left out (C04 owns them)."""
from . import pkt
from .protos import http, smb


def mask_app(payload):
    if payload is None:
        return None
    if http.is_http_response(payload):
        return http.mask(payload)
    if smb.is_smb_response(payload):
        return smb.mask(payload)
    return payload


def canon(reply):
    """Hashable canonical form of a reply frame (None for silence)."""
    if reply is None:
        return None
    a = pkt.parse(reply)
    if "v" not in a:
        return ("raw", reply)
    base = (a.eth_dst, a.eth_src, a.etype, a.src, a.dst, a.proto, a.ttl)
    if "flags" in a:
        return base + ("tcp", a.sp, a.dp, a.seq, a.ack, a.flags, a.win, mask_app(a.data))
    if "ulen" in a:
        return base + ("udp", a.sp, a.dp, mask_app(a.data))
    if "itype" in a:
        return base + ("icmp", a.itype, a.icode, a.irest)
    return base + ("l4", a.get("l4"))


def describe(c):
    if c is None:
        return "silence"
    return repr(c)[:300]
