"""Send an application payload over UDP or inside a cookie-validated TCP flow with random addressing."""
from . import gen, pkt, sigref
from .flow import Flow, app_payload
from .pkt import ACK, PSH


class Ask:
    __slots__ = ("payload", "res", "rep", "e", "sp", "dp", "transport", "bare_ack")


class AppLab:
    def __init__(self, ctx, cfg):
        self.ctx, self.cfg = ctx, cfg
        self.real = sigref.RealMatcher(ctx)
        self.decorate = True

    def crowd(self, n, payload=b"x", reset=True):
        """Fill the connection table with n validated flows (one accepted data segment each; `payload` may be a list of
        payloads used in turn)."""
        rng = self.ctx.rng
        self.ctx.case(reset=reset, record=False)
        made = 0
        e = gen.endp(rng, self.cfg, False)
        pls = payload if isinstance(payload, list) else [payload]
        while made < n:
            m = min(4000, n - made)
            tuples = [(1 + ((made + i) % 60000), 1 + (made + i) // 60000) for i in range(m)]
            rs = self.ctx.send_many([e.tcp(sp, dp, 1, 0, pkt.SYN) for sp, dp in tuples])
            data = []
            for (sp, dp), r in zip(tuples, rs):
                if r.kind == "R":
                    ck = pkt.parse(r.reply).seq
                    if self.ctx.claim_cookie(ck, (e.cip, e.sip, sp, dp)):       # (never continue a harness session's stream)
                        data.append(e.tcp(sp, dp, 2, (ck + 1) & 0xFFFFFFFF, PSH | ACK, pls[(sp + dp) % len(pls)]))
            rs = self.ctx.send_many(data)
            made += m
        self.ctx.case(reset=False)
        return rs[-1].table if rs else 0

    def crowded_sessions(self, sessions, n1=66000, n2=66000):
        """Multi-segment sessions in a busy responder.  sessions: list of (name, [segment, ...]).  Every session runs on a
        connection of its own, twice on the same tuple: (a) alone - fresh table, nothing else; (b) crowded - n1 other
        connections are validated first, then every session sends its SYN and first segment, then n2 more connections are
        validated, then the sessions send their remaining segments (round-robin).  Returns [(name, segs, alone, crowded)]
        with the masked application payload (or None) per segment; sessions whose handshake failed are left out.
        Other connections - however many - are other flows: nothing may differ."""
        from . import canon
        ctx, rng = self.ctx, self.ctx.rng
        tuples = []
        for name, segs in sessions:
            e = gen.endp(rng, self.cfg, rng.random() < 0.5)
            tuples.append((pkt.Endp(e.cmac, e.smac, e.cip, e.sip), gen.rnd_port(rng), gen.rnd_port(rng), rng.getrandbits(32)))

        def run(between):
            flows, out = [], []
            for (name, segs), (e, sp, dp, isn) in zip(sessions, tuples):
                f = Flow(ctx, e, sp, dp, isn=isn)
                ok = f.syn() is not None and f.sp == sp
                flows.append(f if ok else None)
                out.append([] if ok else None)
                if ok:
                    p = app_payload(f.data(segs[0]))
                    out[-1].append(canon.mask_app(p) if p else None)
            between()
            for j in range(1, max(len(s[1]) for s in sessions)):
                for (name, segs), f, o in zip(sessions, flows, out):
                    if f is not None and j < len(segs):
                        p = app_payload(f.data(segs[j]))
                        o.append(canon.mask_app(p) if p else None)
            return out

        ctx.case(reset=True, record=False)
        alone = run(lambda: None)
        mix = [b"x", b"GET /", b"x", b"SSH-2.0-crowd\r\n"]
        t1 = self.crowd(n1, payload=mix)
        crowded = run(lambda: self.crowd(n2, payload=mix, reset=False))
        ctx.stats["crowded_runs"] += 1
        ctx.stats["crowded_table_size"] = max(ctx.stats["crowded_table_size"], t1)
        ctx.case(reset=True)
        return [(s[0], s[1], a, c) for s, a, c in zip(sessions, alone, crowded) if a is not None and c is not None]

    def identified(self, payload, transport):
        """Protocol id both matchers agree on, or None if they disagree (C10's business)."""
        dg = transport == "udp"
        r = sigref.identify(payload, dg)
        return r if self.real.identify(payload, dg) == r else None

    def ask(self, payload, transport, v6=None, sp=None, dp=None, e=None):
        rng = self.ctx.rng
        v6 = rng.random() < 0.5 if v6 is None else v6
        a = Ask()
        a.e = e or gen.endp(rng, self.cfg, v6, own_src=0.03)      # peers that are the responder's own addresses included
        a.sp = gen.rnd_port(rng) if sp is None else sp
        a.dp = gen.rnd_port(rng) if dp is None else dp
        a.payload, a.transport, a.bare_ack = payload, transport, False
        if transport == "udp":
            if sp is None and rng.random() < 0.04:
                # the one source port in 65536 for which the checksum of this very datagram is transmitted as 0xFFFF
                a.sp = pkt.udp_steer_sport(a.e.cip, a.e.sip, a.dp, payload)
            a.res = self.ctx.send(a.e.udp(a.sp, a.dp, payload))
            a.rep = app_payload(a.res)
            return a
        a.sp = self.ctx.fresh_flow(a.e, a.sp, a.dp, fixed=sp is not None)
        f = Flow(self.ctx, a.e, a.sp, a.dp)
        if f.syn() is None:
            a.res, a.rep = None, None
            return a
        a.sp = f.sp         # (the handshake moves to another source port if the cookie is already taken in this table)
        # a data segment is any segment carrying PSH and ACK: sometimes decorate it (FIN for a client that writes and
        # closes at once, URG / ECE / CWR)
        extra = rng.choice([0, 0, 0, 0, 0, 0, 1, 0x20, 0x40, 0x80, 0x100]) if self.decorate else 0
        a.res = f.data(payload, flags=PSH | ACK | extra)
        a.rep = app_payload(a.res)
        if a.res.kind == "R":
            q = pkt.parse(a.res.reply)
            a.bare_ack = q.get("flags") == ACK and not q.get("data")
        if a.rep == b"":
            a.rep = None
        return a

    def dialogue(self, payloads, v6=None):
        """Several requests, one segment each, on ONE validated connection, the client acknowledging every reply
        (ack advances by the reply lengths) -> list of application payloads (None for bare ACK / silence), or None if
        the handshake fails."""
        rng = self.ctx.rng
        e = gen.endp(rng, self.cfg, rng.random() < 0.5 if v6 is None else v6)
        f = Flow.fresh(self.ctx, e)
        if f.syn() is None:
            return None
        out = []
        for p in payloads:
            rep = app_payload(f.data(p))
            out.append(rep if rep else None)
        return out

    def ask_segments(self, payload, cuts, v6=None):
        """Deliver payload over a fresh validated TCP flow cut at the given positions; returns the list of
        application payloads (None for bare ACK / silence) per segment."""
        from .flow import cut
        rng = self.ctx.rng
        e = gen.endp(rng, self.cfg, rng.random() < 0.5 if v6 is None else v6)
        dp = gen.rnd_port(rng)
        f = Flow(self.ctx, e, self.ctx.fresh_flow(e, gen.rnd_port(rng), dp), dp)
        if f.syn() is None:
            return None
        out = []
        for seg in cut(payload, cuts):
            rep = app_payload(f.data(seg))
            out.append(rep if rep else None)
        return out

    def positive_segmented(self, payload, is_reply, what, min_sig=8, maxcuts=4, only_sig=False):
        """Deliver a complete request in 2..maxcuts+1 segments (cuts biased into the first min_sig bytes, i.e. inside the
        identifying signature) and require: nothing but bare ACKs before the last segment, a reply recognised by
        is_reply() in the last one.  Returns the reply payload of the last segment (or None)."""
        ctx, rng = self.ctx, self.ctx.rng
        if len(payload) < 3:
            return None
        k = rng.randrange(1, maxcuts + 1)
        if only_sig:
            # responders that are not incremental see one segment at a time once the protocol is identified: only cuts
            # inside the identifying signature are constrained (the bytes before identification are handed over together)
            cuts = sorted(set(rng.randrange(1, min(len(payload), min_sig)) for _c in range(k)))
        else:
            cuts = sorted(set(rng.choice([rng.randrange(1, min(len(payload), min_sig + 1)), rng.randrange(1, len(payload))]) for _c in range(k)))
        reps = self.ask_segments(payload, cuts)
        if reps is None:
            return None
        ctx.stats["segmented_" + what] += 1
        ctx.nontrivial("seg", what, payload[:64], tuple(cuts))
        if any(r is not None for r in reps[:-1]) or not is_reply(reps[-1]):
            ctx.violation("segmented:%s:%s" % (what, "early_reply" if any(r is not None for r in reps[:-1]) else "no_reply"),
                          "%s request delivered in segments cut at %s: reply sizes per segment %s (expected: one reply, in the completing segment)" % (
                              what, cuts, [None if r is None else len(r) for r in reps]),
                          observed=str([None if r is None else len(r) for r in reps]), expected="one reply, in the last segment",
                          extra={"stream": payload.hex()[:2000], "cuts": cuts})
            return None
        return reps[-1]
