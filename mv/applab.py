"""Send an application payload over UDP or inside a cookie-validated TCP flow with random addressing."""
from . import gen, pkt, sigref
from .flow import Flow, app_payload
from .pkt import ACK, PSH


class Ask:
    __slots__ = ("payload", "res", "rep", "e", "sp", "dp", "transport", "bare_ack")


class AppLab:
    def __init__(self, ctx, cfg):
        self.ctx, self.cfg = ctx, cfg
        self.real = sigref.RealMatcher(ctx)

    def identified(self, payload, transport):
        """Protocol id both matchers agree on, or None if they disagree (C10's business)."""
        dg = transport == "udp"
        r = sigref.identify(payload, dg)
        return r if self.real.identify(payload, dg) == r else None

    def ask(self, payload, transport, v6=None, sp=None, dp=None, e=None):
        rng = self.ctx.rng
        v6 = rng.random() < 0.5 if v6 is None else v6
        a = Ask()
        a.e = e or gen.endp(rng, self.cfg, v6)
        a.sp = gen.rnd_port(rng) if sp is None else sp
        a.dp = gen.rnd_port(rng) if dp is None else dp
        a.payload, a.transport, a.bare_ack = payload, transport, False
        if transport == "udp":
            a.res = self.ctx.send(a.e.udp(a.sp, a.dp, payload))
            a.rep = app_payload(a.res)
            return a
        f = Flow(self.ctx, a.e, a.sp, a.dp)
        if f.syn() is None:
            a.res, a.rep = None, None
            return a
        a.res = f.data(payload)
        a.rep = app_payload(a.res)
        if a.res.kind == "R":
            q = pkt.parse(a.res.reply)
            a.bare_ack = q.get("flags") == ACK and not q.get("data")
        if a.rep == b"":
            a.rep = None
        return a

    def ask_segments(self, payload, cuts, v6=None):
        """Deliver payload over a fresh validated TCP flow cut at the given positions; returns the list of
        application payloads (None for bare ACK / silence) per segment."""
        from .flow import cut
        rng = self.ctx.rng
        e = gen.endp(rng, self.cfg, rng.random() < 0.5 if v6 is None else v6)
        f = Flow(self.ctx, e, gen.rnd_port(rng), gen.rnd_port(rng))
        if f.syn() is None:
            return None
        out = []
        for seg in cut(payload, cuts):
            rep = app_payload(f.data(seg))
            out.append(rep if rep else None)
        return out
