"""Subprocess wrapper around the guarded driver in the real binary (src/verif.rs)."""
import collections
import os
import select
import subprocess
import threading
import time

from . import pkt

Res = collections.namedtuple("Res", "kind table reply logs panic")
# kind: 'R' reply, 'N' silence, 'P' caught panic


class DriverDied(Exception):
    """The driver process ended while a command was outstanding (abort, signal, exit)."""

    def __init__(self, rc, outstanding, logs):
        Exception.__init__(self, "driver died rc=%r" % (rc,))
        self.rc, self.outstanding, self.logs = rc, outstanding, logs


class DriverHang(Exception):
    """CPU-time watchdog: kind is 'spin' or 'deadlock' (violations) or 'starved' (inconclusive)."""

    def __init__(self, kind, outstanding, detail):
        Exception.__init__(self, "driver hang: %s %s" % (kind, detail))
        self.kind, self.outstanding, self.detail = kind, outstanding, detail


class Config:
    LOGGERS = "ncl"

    JUNK = ["", "", "scanner.example.org", "# scanners", "300.1.1.1", "1.2.3", "fe80::zz", "10.0.0.0/8", "localhost", "1.2.3.4.5", "::ffff:1.2.3.4.5", "-"]

    def __init__(self, mac=None, selfips=None, deny=None, key=(0, 0), logger="n", level=0, noise=None):
        self.mac = mac or pkt.mac("c0:ff:ee:c0:ff:ee")
        self.selfips = None if selfips is None else list(selfips)
        self.deny = None if deny is None else list(deny)
        self.key, self.logger, self.level = tuple(key), logger, level
        # noise: None = the lists are handed over as plain comma-separated addresses; an integer = the way the lists are
        # written is drawn from it (inline list and / or file, with the entries every real list has: comments, blank lines,
        # empty items, host names, malformed addresses, "address<TAB>count" lines) - the *set* configured is the same
        self.noise = noise

    def _written(self, l, r):
        import hashlib
        import random
        items = [pkt.ip_s(x) for x in l]
        r = random.Random(r)
        r.shuffle(items)
        k = r.randrange(3)
        infile = items if k == 1 else (items[:len(items) // 2] if k == 2 else [])
        inline = [x for x in items if x not in infile]
        def salt(xs, junk):
            out = list(xs)
            for _ in range(r.randrange(0, 4)):
                out.insert(r.randrange(len(out) + 1), r.choice(junk))
            if xs and r.random() < 0.3:
                out.insert(r.randrange(len(out) + 1), r.choice(xs))      # an address listed twice
            return out
        parts = []
        if infile:
            lines = [x + ("\t%d" % r.randrange(1000) if r.random() < 0.3 else "") for x in salt(infile, self.JUNK + ["# comment with spaces", " ", "10.1.1.1 trailing words"])]
            # never let a junk line be a valid address of its own
            eol = r.choice(["\n", "\n", "\r\n"])
            body = (eol.join(lines) + (eol if r.random() < 0.8 else "")).encode()
            d = os.path.join(os.path.dirname(os.path.dirname(os.path.abspath(__file__))), ".target", "cfg")
            os.makedirs(d, exist_ok=True)
            path = os.path.join(d, hashlib.sha1(body).hexdigest()[:16] + ".txt")
            if not os.path.exists(path):
                with open(path + ".tmp%d" % os.getpid(), "wb") as f:
                    f.write(body)
                os.replace(path + ".tmp%d" % os.getpid(), path)
            parts.append("@" + path)
        if inline or not parts:
            parts.append(",".join(salt(inline, [j for j in self.JUNK if " " not in j and j != "-"])))
        return "+".join(parts)

    def line(self):
        def ips(l, salt):
            if not l:
                return "-"
            if self.noise is None:
                return ",".join(pkt.ip_s(x) for x in l)
            return self._written(l, self.noise * 2 + salt)
        return "C %s %s %s %x %x %s %d" % (pkt.mac_s(self.mac), ips(self.selfips, 0), ips(self.deny, 1),
                                          self.key[0], self.key[1], self.logger, self.level)

    def to_json(self):
        return {"mac": pkt.mac_s(self.mac),
                "selfips": None if not self.selfips else [pkt.ip_s(x) for x in self.selfips],
                "deny": None if not self.deny else [pkt.ip_s(x) for x in self.deny],
                "key": ["%x" % self.key[0], "%x" % self.key[1]], "logger": self.logger, "level": self.level, "noise": self.noise}

    @staticmethod
    def from_json(j):
        return Config(pkt.mac(j["mac"]), None if not j["selfips"] else [pkt.ip(x) for x in j["selfips"]],
                      None if not j["deny"] else [pkt.ip(x) for x in j["deny"]],
                      (int(j["key"][0], 16), int(j["key"][1], 16)), j["logger"], j["level"], j.get("noise"))

    def with_(self, **kw):
        c = Config(self.mac, self.selfips, self.deny, self.key, self.logger, self.level, self.noise)
        for k, v in kw.items():
            setattr(c, k, v)
        return c

    def handles(self, addr):
        """True if addr is an address the responder is configured to own."""
        return not self.selfips or addr in self.selfips


def _cpu_ticks(pid):
    try:
        with open("/proc/%d/stat" % pid) as f:
            s = f.read()
        rest = s[s.rindex(")") + 2:].split()
        return int(rest[11]) + int(rest[12]), rest[0]
    except Exception:
        return None, "?"


TICK = os.sysconf("SC_CLK_TCK") if hasattr(os, "sysconf") else 100

SPIN_CPU_S = 10.0       # outstanding command while child burnt >= this much CPU: violation
DEADLOCK_S = 20.0       # sleeping child, no CPU progress for this long with input pending: violation
STARVED_S = 180.0       # wall cap: inconclusive


class Driver:
    def __init__(self, binpath, stderr_path=None, env_extra=None, wrapper=None):
        env = dict(os.environ, MASSCANNED_VERIF_DRIVER="1")
        env.pop("RUST_BACKTRACE", None)
        if env_extra:
            env.update(env_extra)
        self._err = open(stderr_path or os.devnull, "wb")
        self.p = subprocess.Popen((wrapper or []) + [binpath], stdin=subprocess.PIPE, stdout=subprocess.PIPE, stderr=self._err,
                                  env=env, bufsize=0)
        self.fd = self.p.stdout.fileno()
        self.buf = bytearray()
        self.lines = collections.deque()
        self.cfg_ = None
        self.nframes = 0
        r = self._result("hello")
        if r[:1] != ["V"]:
            raise RuntimeError("unexpected driver greeting %r" % (r,))
        # protocol version 2: address lists go through the real list parsers ("@file+inline" syntax)
        self.version = int(r[1]) if len(r) > 1 and r[1].isdigit() else 1

    # ---- low level -------------------------------------------------------------
    def _fill(self, outstanding):
        t0 = time.time()
        c0, _ = _cpu_ticks(self.p.pid)
        last_c, last_t = c0, t0
        while True:
            r, _, _ = select.select([self.fd], [], [], 1.0)
            if r:
                chunk = os.read(self.fd, 1 << 16)
                if not chunk:
                    rc = self.p.wait()
                    raise DriverDied(rc, outstanding, [])
                self.buf += chunk
                if b"\n" in chunk:
                    parts = self.buf.split(b"\n")
                    self.buf = parts.pop()
                    self.lines.extend(parts)
                    return
                continue
            now = time.time()
            c, st = _cpu_ticks(self.p.pid)
            if c is None:
                continue
            if (c - c0) / TICK >= SPIN_CPU_S:
                raise DriverHang("spin", outstanding, "cpu %.1fs" % ((c - c0) / TICK))
            if c != last_c:
                last_c, last_t = c, now
            elif st == "S" and now - last_t >= DEADLOCK_S:
                raise DriverHang("deadlock", outstanding, "state S, no cpu for %.0fs" % (now - last_t))
            if now - t0 >= STARVED_S:
                raise DriverHang("starved", outstanding, "wall %.0fs cpu %.1fs" % (now - t0, (c - c0) / TICK))

    def _result(self, outstanding):
        """Read lines up to the next '#V# ' line; returns fields, leaves log lines in self._logs."""
        logs = []
        while True:
            while not self.lines:
                try:
                    self._fill(outstanding)
                except DriverDied as e:
                    e.logs = logs
                    raise
            l = bytes(self.lines.popleft())
            if l.startswith(b"#V# "):
                self._logs = logs
                return l[4:].decode("latin-1").split(" ")
            logs.append(l.decode("utf-8", errors="replace"))

    def _send(self, line):
        self.p.stdin.write(line.encode() + b"\n")

    def _cmd(self, line):
        self._send(line)
        return self._result(line[:200])

    # ---- commands --------------------------------------------------------------
    def cfg(self, c):
        if c.noise is not None and getattr(self, "version", 1) < 2:
            c = c.with_(noise=None)         # a driver without the list-parser hook only takes plain lists
        r = self._cmd(c.line())
        if r[:2] != ["C", "ok"]:
            raise RuntimeError("configuration rejected: %r" % (r,))
        self.cfg_ = c

    @staticmethod
    def _mkres(r, logs):
        if r[0] == "R" and len(r) >= 3:
            return Res("R", int(r[1]), bytes.fromhex(r[2]), logs, None)
        if r[0] == "N":
            return Res("N", int(r[1]), None, logs, None)
        if r[0] == "P":
            return Res("P", int(r[1]), None, logs, " ".join(r[2:]))
        raise RuntimeError("unexpected driver line %r" % (r,))

    def frame(self, f):
        self.nframes += 1
        r = self._cmd("F " + f.hex())
        return self._mkres(r, self._logs)

    def frames(self, fs):
        """Pipelined: a writer thread feeds all frames while this thread reads the results."""
        fs = list(fs)
        if len(fs) <= 2:
            return [self.frame(f) for f in fs]
        self.nframes += len(fs)
        err = []

        def feed():
            try:
                for i in range(0, len(fs), 64):
                    self.p.stdin.write(b"".join(b"F " + f.hex().encode() + b"\n" for f in fs[i:i + 64]))
            except Exception as e:  # broken pipe: the reader side reports it
                err.append(e)
        t = threading.Thread(target=feed, daemon=True)
        t.start()
        out = []
        for i, f in enumerate(fs):
            r = self._result("F " + f.hex()[:200])
            out.append(self._mkres(r, self._logs))
        t.join()
        return out

    def reset(self):
        self._cmd("R")

    def dump(self):
        r = self._cmd("D")
        out = {}
        for e in r[1:]:
            if not e:
                continue
            c, pid, st, kind = e.split(",")
            out[int(c, 16)] = (int(pid), int(st), kind)
        return out

    def step(self, state, byte):
        """One byte (int), end-of-input (None): -> (new state, id)."""
        r = self._cmd("S %d %s" % (state, "E" if byte is None else "%02x" % byte))
        return int(r[1]), int(r[2])

    def steps(self, state, data):
        """Feed bytes one by one until the first match: -> (state, id, bytes consumed)."""
        if not data:
            return state, -1, 0
        r = self._cmd("S %d %s" % (state, bytes(data).hex()))
        return int(r[1]), int(r[2]), int(r[3])

    def mem(self):
        r = self._cmd("M")
        return int(r[1]), int(r[2])

    def alive(self):
        return self.p.poll() is None

    def close(self):
        try:
            if self.p.poll() is None:
                try:
                    self.p.stdin.write(b"Q\n")
                    self.p.stdin.close()
                except Exception:
                    pass
                try:
                    self.p.wait(timeout=5)
                except Exception:
                    self.p.kill()
                    self.p.wait()
        finally:
            try:
                self.p.stdout.close()
            except Exception:
                pass
            self._err.close()

    def kill(self):
        try:
            self.p.kill()
            self.p.wait()
        except Exception:
            pass
        self.close()
