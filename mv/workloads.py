"""Shared reply-eliciting workloads (used by the owners of the universal monitors C03/C04/C20 and by C19)."""
import struct

from . import gen, pkt
from .flow import Flow, cut
from .pkt import SYN, ACK, PSH, FIN, RST, URG, ECE, CWR, P_ICMP6
from .protos import stun


def stun_change_port(rng, magic=True):
    tid = stun.gen_tid(rng, magic)
    if magic and rng.random() < 0.5:
        # long form (identified through the magic-cookie signature)
        a = stun.change_request(change_ip=rng.random() < 0.3) + stun.gen_attrs(rng, 4 * rng.randrange(0x40, 0x80))
        return stun.msg(1, tid, a)
    return stun.msg(1, tid, struct.pack("!HH", 3, 4) + b"\0\0\0\x02")


def reply_mix(ctx, cfg, rounds=1, on_reply=None, tcp=True, own_src=0.03):
    """Drive a mix of answerable traffic with randomised MACs / addresses / ports.  on_reply(frame, res, tag) is
    called for every frame sent (res.kind 'R' or 'N')."""
    rng = ctx.rng

    def emit(tag, f):
        r = ctx.send(f)
        ctx.stats["mix_" + tag + ("_R" if r.kind == "R" else "_N")] += 1
        if on_reply:
            on_reply(f, r, tag)
        return r

    for _ in range(rounds):
        for v6 in (False, True):
            e = gen.endp(rng, cfg, v6, own_src=own_src)
            if not v6:
                emit("arp", gen.arp_request(e))
                # relayed / proxied ARP: the sender hardware address inside the request differs from the frame's source
                emit("arp", pkt.eth(pkt.BCAST, e.cmac, pkt.ET_ARP, pkt.arp(1, gen.rnd_mac(rng), e.cip, b"\0" * 6, e.sip)))
                emit("arp", pkt.eth(cfg.mac, e.cmac, pkt.ET_ARP, pkt.arp(1, e.cmac, e.cip, gen.rnd_mac(rng), e.sip) + b"\0" * rng.randrange(0, 19)))
            else:
                emit("ns", gen.ns_frame(e, e.sip, opts=b"\x01\x01" + e.cmac, dst_solicited=rng.random() < 0.5))
                emit("ns", gen.ns_frame(e, e.sip))
                # unicast solicitation to one handled address for another one
                others = [a for a in (cfg.selfips or []) if len(a) == 16 and a != e.sip]
                tgt = rng.choice(others) if others else gen.rnd_ip6(rng)
                emit("ns", gen.ns_frame(e, tgt, opts=b"\x01\x01" + e.cmac))
            emit("echo", e.echo(rng.getrandbits(16), rng.getrandbits(16), bytes(rng.getrandbits(8) for _x in range(rng.choice([0, 1, 2, 3, 8, 56, 57, 1000, 1471, 1472])))))
            # the same answerable content behind a VLAN tag / MPLS label / PPPoE header: unsupported outer EtherType
            base = rng.choice([e.echo(rng.getrandbits(16), 1, b"tagged"), e.tcp(gen.rnd_port(rng), gen.rnd_port(rng), rng.getrandbits(32), 0, SYN),
                               gen.arp_request(e) if not v6 else gen.ns_frame(e, e.sip), e.udp(gen.rnd_port(rng), gen.rnd_port(rng), stun.msg(1, stun.gen_tid(rng, True)))])
            for f in gen.encapsulated(rng, base, types=[0x8100, rng.choice(gen.ENCAP_TYPES)]):
                emit("encap", f)
            for f in rng.sample(gen.icmp_noise(rng, cfg), 4):
                emit("icmpnoise", f[1])
            # a datagram / segment of a transport that merely shares the header layout (UDP-Lite, DCCP, SCTP ...): unsupported
            # protocol - and never to be answered as if it had been UDP / TCP
            sreq = stun.msg(1, stun.gen_tid(rng, True))
            for p in rng.sample([136, 33, 132, 17 ^ 0x80, 6 ^ 0x40], 2):
                l4 = pkt.udp(e.cip, e.sip, gen.rnd_port(rng), gen.rnd_port(rng), sreq) if p != (6 ^ 0x40) else pkt.tcp(e.cip, e.sip, gen.rnd_port(rng), gen.rnd_port(rng), 1, 0, SYN)
                emit("altproto", e.l3(p, l4))
            # frames whose EtherType and IP version field disagree, or whose version field is not 4 / 6: whatever is done with
            # them, an answer carries the request's EtherType and the proper version number
            base = rng.choice([e.echo(rng.getrandbits(16), 1, b"version"), e.tcp(gen.rnd_port(rng), gen.rnd_port(rng), rng.getrandbits(32), 0, SYN),
                               e.udp(gen.rnd_port(rng), gen.rnd_port(rng), stun.msg(1, stun.gen_tid(rng, True)))])
            emit("mislabel", base[:12] + (b"\x08\x00" if v6 else b"\x86\xdd") + base[14:])
            vb = bytearray(base)
            vb[14] = (rng.choice([0, 1, 2, 3, 5, 7, 8, 9, 15, 6 if not v6 else 4]) << 4) | (vb[14] & 15)
            if not v6:
                vb[24:26] = b"\0\0"
                vb[24:26] = struct.pack("!H", pkt.csum(bytes(vb[14:34])))
            emit("version", bytes(vb))
            for fl in (SYN, SYN | ECE, SYN | CWR, SYN | PSH, SYN | URG, SYN | PSH | URG | ECE):
                emit("syn", e.tcp(gen.rnd_port(rng), gen.rnd_port(rng), rng.choice([0, 1, 0xFFFFFFFF, rng.getrandbits(32)]), rng.getrandbits(32), fl))
            emit("finack", e.tcp(gen.rnd_port(rng), gen.rnd_port(rng), rng.choice([0xFFFFFFFF, rng.getrandbits(32)]), rng.getrandbits(32), FIN | ACK))
            # a peer that uses the responder's own MAC, or a group address, as Ethernet source
            odd = pkt.Endp(rng.choice([cfg.mac, pkt.BCAST, b"\x01\x00\x5e\x00\x00\x01"]), e.smac, e.cip, e.sip)
            emit("echo", odd.echo(rng.getrandbits(16), 1, b"odd-source"))
            emit("syn", odd.tcp(gen.rnd_port(rng), gen.rnd_port(rng), rng.getrandbits(32), 0, SYN))
            apps = gen.app_requests(rng)
            for name, u, t in apps:
                e = gen.endp(rng, cfg, v6)
                emit("udp_" + name.split("_")[0], e.udp(gen.rnd_port(rng), gen.rnd_port(rng), u))
            for dp in (65535, 65534, 0, gen.rnd_port(rng)):
                e = gen.endp(rng, cfg, v6)
                emit("udp_stuncp", e.udp(gen.rnd_port(rng), dp, stun_change_port(rng, rng.random() < 0.5)))
            if tcp:
                for name, u, t in apps + [("stuncp", None, stun_change_port(rng, True)), ("stuncp", None, stun_change_port(rng, True))]:
                    e = gen.endp(rng, cfg, v6)
                    dp = rng.choice([65535, gen.rnd_port(rng)]) if name == "stuncp" else gen.rnd_port(rng)
                    f = Flow.fresh(ctx, e, dp, isn=rng.choice([0xFFFFFFFF, 0xFFFFFFFE, rng.getrandbits(32)]))
                    r = emit("tcp_syn", f.syn_frame())
                    a = pkt.parse(r.reply) if r.kind == "R" else {}
                    if a.get("flags") != (SYN | ACK):
                        continue
                    f.cookie, f.ack = a["seq"], (a["seq"] + 1) & 0xFFFFFFFF
                    segs = cut(t, sorted(rng.randrange(0, len(t) + 1) for _c in range(rng.choice([0, 0, 1, 2]))))
                    for s in segs:
                        fr = f.data_frame(s)
                        r = emit("tcp_" + name.split("_")[0], fr)
                        f.seq = (f.seq + len(s)) & 0xFFFFFFFF
                        if r.kind == "R":
                            b = pkt.parse(r.reply)
                            if "seq" in b:
                                f.ack = (b.seq + len(b.data)) & 0xFFFFFFFF
                    emit("tcp_finack", f.data_frame(b"", flags=FIN | ACK))
