"""Build the repository under test with the verification hooks enabled.

`binary(profile)` (re)builds VERIF_REPO (default /repo) from its current working tree into
/verif/.target with `--cfg ivre_masscanned_verif`, offline, and returns the path of a private
copy of the resulting binary.  Concurrent checks serialise on a lock file.
"""
import fcntl
import hashlib
import os
import shutil
import subprocess
import sys
import time

VERIF = os.path.dirname(os.path.dirname(os.path.abspath(__file__)))
REPO = os.environ.get("VERIF_REPO", "/repo")
TARGET = os.environ.get("VERIF_TARGET", os.path.join(VERIF, ".target"))
GUARD = "ivre_masscanned_verif"
RUSTFLAGS = "--cfg %s --check-cfg cfg(%s)" % (GUARD, GUARD)


class BuildError(Exception):
    pass


def _env(extra_flags=""):
    e = dict(os.environ)
    e["CARGO_NET_OFFLINE"] = "true"
    e["RUSTFLAGS"] = (RUSTFLAGS + " " + extra_flags).strip()
    e.pop("CARGO_TARGET_DIR", None)
    return e


def source_hash():
    h = hashlib.sha1()
    files = [os.path.join(REPO, "Cargo.toml"), os.path.join(REPO, "Cargo.lock")]
    for root, _dirs, names in os.walk(os.path.join(REPO, "src")):
        files += [os.path.join(root, n) for n in names]
    for p in sorted(files):
        try:
            with open(p, "rb") as f:
                h.update(p.encode() + b"\0" + f.read() + b"\0")
        except OSError:
            pass
    return h.hexdigest()


def binary_path(profile="debug"):
    if profile == "valgrind":
        profile = "release"
    tag = hashlib.sha1(os.path.abspath(REPO).encode()).hexdigest()[:10]
    return os.path.join(TARGET, "bin", "%s-%s" % (tag, profile), "masscanned")


def binary(profile="debug", quiet=True):
    """profile: 'debug' | 'release' | 'cov' (debug + -Cinstrument-coverage on the nightly toolchain, whose llvm-tools
    provide the matching llvm-profdata / llvm-cov)."""
    os.makedirs(TARGET, exist_ok=True)
    tag = hashlib.sha1(os.path.abspath(REPO).encode()).hexdigest()[:10]
    # one cargo target directory per source path: with a shared one cargo does not re-link target/debug/masscanned
    # when the other tree's build is "fresh", and the wrong binary would be picked up
    tdir = TARGET if os.path.abspath(REPO) == "/repo" else os.path.join(TARGET + "-alt", tag)
    if profile in ("cov", "asan"):
        tdir += "-" + profile
    if profile == "valgrind":
        return binary("release", quiet)
    os.makedirs(tdir, exist_ok=True)
    outdir = os.path.join(TARGET, "bin", "%s-%s" % (tag, profile))
    os.makedirs(outdir, exist_ok=True)
    out = os.path.join(outdir, "masscanned")
    lock = open(os.path.join(TARGET, ".verif-build.lock"), "w")
    fcntl.flock(lock, fcntl.LOCK_EX)
    try:
        # cargo decides freshness by mtime; guard against anomalies (restored files with old mtimes, a target
        # directory last used for different contents) with a content hash of the sources: if it differs from the
        # one recorded at the last successful build of this profile, the crate's fingerprint is dropped
        cur = source_hash()
        stamp = os.path.join(outdir, "sources.sha1")
        prev = open(stamp).read().strip() if os.path.exists(stamp) else None
        if prev != cur:
            fdir = os.path.join(tdir, "x86_64-unknown-linux-gnu" if profile == "asan" else "", "release" if profile == "release" else "debug", ".fingerprint")
            if os.path.isdir(fdir):
                for n in os.listdir(fdir):
                    if n.startswith("masscanned-"):
                        shutil.rmtree(os.path.join(fdir, n), ignore_errors=True)
        cmd = ["cargo"] + (["+nightly"] if profile in ("cov", "asan") else []) + \
              ["build", "--offline", "--manifest-path", os.path.join(REPO, "Cargo.toml"), "--target-dir", tdir]
        if profile == "release":
            cmd.append("--release")
        if profile == "asan":
            cmd += ["--target", "x86_64-unknown-linux-gnu"]
        extra = {"cov": "-Cinstrument-coverage", "asan": "-Zsanitizer=address -Cforce-frame-pointers=yes"}.get(profile, "")
        env = _env(extra)
        if profile == "cov":
            # instrumented build scripts must not drop *.profraw files into the repository
            env["LLVM_PROFILE_FILE"] = os.path.join(tdir, "build-%p.profraw")
        t0 = time.time()
        r = subprocess.run(cmd, env=env, stdout=subprocess.PIPE, stderr=subprocess.STDOUT, cwd=REPO)
        if r.returncode != 0:
            sys.stdout.write(r.stdout.decode(errors="replace")[-4000:])
            raise BuildError("cargo build failed (%s)" % profile)
        src = os.path.join(tdir, "x86_64-unknown-linux-gnu" if profile == "asan" else "", "release" if profile == "release" else "debug", "masscanned")
        tmp = out + ".tmp.%d" % os.getpid()
        shutil.copy2(src, tmp)
        os.replace(tmp, out)
        with open(stamp, "w") as f:
            f.write(cur)
        if not quiet:
            print("built %s in %.1fs" % (profile, time.time() - t0))
    finally:
        fcntl.flock(lock, fcntl.LOCK_UN)
        lock.close()
    return out


if __name__ == "__main__":
    for p in sys.argv[1:] or ["debug", "release"]:
        print(binary(p, quiet=False))


def llvm_tool(name):
    import glob
    c = glob.glob(os.path.expanduser("~/.rustup/toolchains/nightly-x86_64-*/lib/rustlib/*/bin/" + name))
    return c[0] if c else None


def coverage_report(profraw_dir):
    """Merge the *.profraw files of instrumented driver runs and return {source file: (regions, covered regions)}."""
    import glob
    import json as _json
    prof, cov = llvm_tool("llvm-profdata"), llvm_tool("llvm-cov")
    raws = glob.glob(os.path.join(profraw_dir, "*.profraw"))
    if not prof or not cov or not raws:
        return None
    data = os.path.join(profraw_dir, "merged.profdata")
    r = subprocess.run([prof, "merge", "-sparse", "-o", data] + raws, stdout=subprocess.PIPE, stderr=subprocess.STDOUT)
    if r.returncode:
        return None
    r = subprocess.run([cov, "export", "-summary-only", "-instr-profile", data, binary_path("cov")], stdout=subprocess.PIPE, stderr=subprocess.PIPE)
    if r.returncode:
        return None
    out = {}
    for f in _json.loads(r.stdout)["data"][0]["files"]:
        name = f["filename"]
        if name.startswith(os.path.abspath(REPO) + "/src/"):
            s = f["summary"]
            out[name[len(os.path.abspath(REPO)) + 1:]] = {"regions": s["regions"]["count"], "regions_covered": s["regions"]["covered"],
                                                         "lines": s["lines"]["count"], "lines_covered": s["lines"]["covered"]}
    return out
