"""./check Cxx --replay <file>: re-drive a replay file on the current build of VERIF_REPO and re-evaluate.

Generic part: configure the driver as recorded, reset the table, send the recorded frames ("RESET" entries reset the
table), print what came back and run the universal monitors on every frame.  Property-specific part: checks that
store structured witnesses in `extra` (C08: F / H / order, C10-C11: stream + cuts, C19: payload) are re-executed in
that form.  Exit 1 if the recorded violation (or any monitor hit of this property) shows up again, 0 otherwise."""
import json

from . import build, pkt, monitors, canon
from .driver import Driver, Config, DriverDied
from .flow import cut
from .pkt import SYN, ACK, PSH


def run(prop, path, mod):
    v = json.load(open(path))
    profile = v.get("profile", "debug")
    build.binary(profile)
    d = Driver(build.binary_path(profile))
    cfg = Config.from_json(v["config"]) if v.get("config") else Config()
    d.cfg(cfg)
    d.reset()
    print("replaying %s (property %s, key %s)" % (path, v.get("property"), v.get("key")))
    print("recorded: %s" % (v.get("what") or "")[:600])
    hits = 0
    frames = v.get("frames") or []
    last = None
    try:
        for i, h in enumerate(frames):
            if h == "RESET":
                d.reset()
                print("#%d table reset" % i)
                continue
            f = bytes.fromhex(h)
            r = d.frame(f)
            last = r
            out = "panic " + r.panic if r.kind == "P" else ("silence" if r.kind == "N" else pkt.summary(r.reply))
            if i >= len(frames) - 12:
                print("#%d %s\n    -> %s  [table %d]" % (i, pkt.summary(f), out, r.table))
            errs = []
            if r.kind == "P":
                errs.append(("C01", "panic " + r.panic))
            if r.kind == "R":
                errs += [("C03", e) for e in monitors.mirror(f, r.reply, cfg)]
                errs += [("C04", e) for e in monitors.wellformed(r.reply)]
            if cfg.logger != "n":
                errs += [("C20", e) for e in monitors.logcheck(f, r, cfg)]
            for p, e in errs:
                print("    monitor %s: %s" % (p, e))
                if p == prop:
                    hits += 1
    except DriverDied as e:
        print("driver died: rc=%r" % (e.rc,))
        hits += 1
    ex = v.get("extra") or {}
    if "stream" in ex and "cuts" in ex:
        stream, cuts = bytes.fromhex(ex["stream"]), ex["cuts"]
        for plan in ([], cuts):
            d.reset()
            import random
            from . import gen
            e = gen.endp(random.Random(1), cfg, False)
            r = d.frame(e.tcp(40000, 80, 100, 0, SYN))
            if r.kind != "R":
                print("SYN not answered under this configuration; stream witness not re-driven")
                break
            a = pkt.parse(r.reply)
            seq, outs = 101, []
            for seg in cut(stream, plan):
                r = d.frame(e.tcp(40000, 80, seq, a.seq + 1, PSH | ACK, seg))
                seq += len(seg)
                b = pkt.parse(r.reply) if r.kind == "R" else {}
                outs.append("%d bytes -> %s" % (len(seg), "nothing" if r.kind != "R" else "flags %03x + %d payload bytes" % (b.get("flags", 0), len(b.get("data") or b""))))
            print("stream cut at %s: %s; table dump %s" % (plan, "; ".join(outs), d.dump()))
    if "F" in ex and "order" in ex:
        F, H = [bytes.fromhex(x) for x in ex["F"]], [bytes.fromhex(x) for x in ex["H"]]

        def ex_(fs):
            d.reset()
            return [canon.canon(r.reply) if r.kind == "R" else None for r in (d.frame(f) for f in fs)]
        aF, aH = ex_(F), ex_(H)
        inter = ex_([F[i] if w == "F" else H[i] for w, i in ex["order"]])
        for pos, (w, i) in enumerate(ex["order"]):
            want = aF[i] if w == "F" else aH[i]
            if inter[pos] != want:
                print("interleaving position %d (%s #%d): alone %s / interleaved %s" % (pos, w, i, canon.describe(want)[:200], canon.describe(inter[pos])[:200]))
                hits += 1
    if "payload" in ex and "transport" in ex and "edge" not in ex:
        print("payload-level witness: %s over %s" % (ex["payload"][:200], ex["transport"]))
    obs = v.get("observed")
    if last is not None and isinstance(obs, str) and last.kind == "R" and last.reply.hex().startswith(obs[:200]) and len(obs) >= 28:
        print("the recorded observation reproduces on the last frame")
        hits += 1
    d.close()
    if hits:
        print("VIOLATION property=%s replay=%s" % (prop, path))
        return 1
    print("no violation of %s reproduced by this replay on the current tree" % prop)
    return 0
