"""known_findings.json: committed list of genuine defects that are recorded rather than repaired
(status "known"), and of defects repaired by a "fix:" commit (status "fixed", suppresses nothing).

A violation is matched by its specific key (never by property id alone); keys may end with '*' to
cover a family that shares one root cause and one stable signature prefix.
"""
import json
import os

from . import build

PATH = os.path.join(build.VERIF, "known_findings.json")


def load():
    try:
        with open(PATH) as f:
            return json.load(f)
    except FileNotFoundError:
        return []


def match(entries, prop, key):
    for e in entries:
        if e.get("status") != "known" or e.get("property") != prop:
            continue
        k = e["key"]
        if k == key or (k.endswith("*") and key.startswith(k[:-1])):
            return e
    return None


def known(prop):
    return [e for e in load() if e.get("status") == "known" and e.get("property") == prop]
