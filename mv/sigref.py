"""Reference model of protocol identification: the published signature set, matched against the leading
bytes of a payload, "first signature completed" wins.  Independent of the smack automaton.

A signature is a list of byte values with None for '*' (any byte).  All are anchored at the first byte;
those flagged `end` additionally only complete if the datagram ends right after them (UDP only).
"""
HTTP, STUN, SSH, GHOST, RPC_TCP, RPC_UDP, SMB1, SMB2 = 1, 2, 3, 4, 5, 6, 7, 8
NOMATCH = -1
NAMES = {1: "http", 2: "stun", 3: "ssh", 4: "ghost", 5: "rpc_tcp", 6: "rpc_udp", 7: "smb1", 8: "smb2", -1: "none"}
VERBS = ["GET", "PUT", "POST", "HEAD", "DELETE", "CONNECT", "OPTIONS", "TRACE", "PATCH"]


def _pat(b, wild=True):
    return [None if (wild and x == 0x2A) else x for x in b]


SIGS = []  # (name, proto id, pattern, end-anchored)
for _v in VERBS:
    SIGS.append(("HTTP:" + _v, HTTP, _pat((_v + " /").encode(), False), False))
SIGS.append(("STUN_MAGIC", STUN, _pat(b"\x00\x01**\x21\x12\xa4\x42"), False))
SIGS.append(("STUN_EMPTY", STUN, _pat(b"\x00\x01\x00\x00****************"), True))
SIGS.append(("STUN_CHANGE_REQUEST", STUN, _pat(b"\x00\x01\x00\x08****************\x00\x03\x00\x04\x00\x00\x00*"), True))
SIGS.append(("SSH2", SSH, _pat(b"SSH-2.0", False), False))
SIGS.append(("SSH1", SSH, _pat(b"SSH-1.99", False), False))
SIGS.append(("GHOST", GHOST, _pat(b"Gh0st", False), False))
SIGS.append(("RPC_TCP", RPC_TCP, _pat(b"********\x00\x00\x00\x00\x00\x00\x00*\x00\x01\x86*****\x00\x00\x00*"), False))
SIGS.append(("RPC_UDP", RPC_UDP, _pat(b"****\x00\x00\x00\x00\x00\x00\x00*\x00\x01\x86*****\x00\x00\x00*"), False))
SIGS.append(("SMB1", SMB1, _pat(b"\x00\x00**\xffSMB"), False))
SIGS.append(("SMB2", SMB2, _pat(b"\x00\x00**\xfeSMB"), False))
MAXLEN = max(len(s[2]) for s in SIGS)
ALL = frozenset(range(len(SIGS)))


def step(alive, pos, b):
    """alive: signatures still matching after `pos` bytes.  Returns (new alive set, ids completed by b)."""
    na, done = set(), []
    for i in alive:
        p = SIGS[i][2]
        if pos < len(p) and (p[pos] is None or p[pos] == b):
            if pos + 1 == len(p):
                if SIGS[i][3]:
                    na.add(i)            # end-anchored: pending until end of datagram
                else:
                    done.append(i)
            else:
                na.add(i)
    return frozenset(na), done


def end(alive, pos):
    return [i for i in alive if SIGS[i][3] and len(SIGS[i][2]) == pos]


def identify(data, datagram):
    """Protocol id the reference says handles a payload.

    datagram=True: whole UDP payload (end-anchored signatures may complete at its end).
    datagram=False: TCP stream prefix (NOMATCH may still turn into a match with more bytes:
    use `undecided()`)."""
    alive, pos = ALL, 0
    for b in data:
        alive, done = step(alive, pos, b)
        pos += 1
        if done:
            return SIGS[done[0]][1]
        if not alive:
            return NOMATCH
    if datagram:
        e = end(alive, pos)
        if e:
            return SIGS[e[0]][1]
    return NOMATCH


def undecided(data):
    """True if a stream prefix neither completed nor excluded every non-end-anchored signature."""
    alive, pos = ALL, 0
    for b in data:
        alive, done = step(alive, pos, b)
        pos += 1
        if done:
            return False
    return any(not SIGS[i][3] for i in alive)


def decision_point(data):
    """Number of leading bytes after which the reference has completed a signature (None if never)."""
    alive, pos = ALL, 0
    for b in data:
        alive, done = step(alive, pos, b)
        pos += 1
        if done:
            return pos
        if not alive:
            return None
    return None


class RealMatcher:
    """The compiled matcher of the implementation, stepped through the driver's S command (cached)."""

    def __init__(self, ctx):
        self.ctx = ctx
        self.cache = {}
        self.base = 0   # BASE_STATE

    def identify(self, data, datagram):
        """Exactly what the dispatcher computes: run over the whole payload, then (datagrams only) the
        end-of-input symbol if nothing matched."""
        key = (bytes(data), datagram)
        if key in self.cache:
            return self.cache[key]
        d = self.ctx.driver()
        st, rid, _ = d.steps(self.base, data)
        if rid == NOMATCH and datagram:
            st, rid = d.step(st, None)
        if len(self.cache) > 200000:
            self.cache.clear()
        self.cache[key] = rid
        return rid
