"""Shard runner, per-shard context (driver + universal monitors + bookkeeping), evidence and verdicts."""
import hashlib
import json
import multiprocessing
import os
import random
import sys
import time
import traceback
import collections

from . import build, pkt
from .driver import Driver, Config, DriverDied, DriverHang, Res

VERIF = build.VERIF
NSHARDS = int(os.environ.get("VERIF_SHARDS", "16"))
REPLAY_DIR = os.path.join(VERIF, "replays")
EVIDENCE_DIR = os.environ.get("VERIF_EVIDENCE_DIR", os.path.join(VERIF, "evidence"))
MAX_VIOL_PER_SHARD = 40
# properties that promise an answer: a crash of the responder violates them for every later request
MUST_ANSWER = {"C05", "C06", "C07", "C11", "C13", "C14", "C15", "C16", "C17", "C18"}


def h64(*parts):
    h = hashlib.blake2b(digest_size=8)
    for p in parts:
        if isinstance(p, str):
            p = p.encode()
        elif isinstance(p, bool) or p is None or isinstance(p, (tuple, list, float, frozenset, set, dict)):
            p = repr(p).encode()
        elif isinstance(p, int):
            p = p.to_bytes(16, "little", signed=True)
        h.update(p)
        h.update(b"|")
    return int.from_bytes(h.digest(), "little")


DISCARDED_BY_RECEIVER = {"ip4_version", "ip4_ihl", "ip4_totlen", "ip4_hdrsum", "ip6_version", "ip6_plen", "icmp_sum", "icmp6_sum", "icmp_short", "icmp6_short",
                         "udp_len", "udp_sum", "udp6_zero_sum", "tcp_doff", "tcp_sum", "ip6_na_hlim"}


class Ctx:
    """Everything one shard needs.  `send()` is the observation boundary of every monitor."""

    def __init__(self, prop, tier, seed, shard, nshards, profile="debug"):
        self.prop, self.tier, self.seed, self.shard, self.nshards, self.profile = prop, tier, seed, shard, nshards, profile
        self.rng = random.Random(seed * 1000 + shard)
        self.bin = build.binary_path(profile)
        self.drv = None
        self.cfg = Config()
        self.history = []           # frames of the current case (since last reset)
        self.record = True
        self.stats = collections.Counter()
        self.nt = set()
        self.violations = []
        self.cross = []
        self.samples = []
        self.inconclusive = 0
        self.evaluations = 0
        self.extra = {}
        self.universal = True       # run the universal monitors on every reply
        self.t0 = time.time()
        self._cross_seen = set()
        self._tcp_tail = {}
        self._last_table = None
        self._cookies = {}
        self.pad_rate = 0.12
        self._pad_rng = random.Random(seed * 7919 + shard)
        # C20: a frame whose handling aborts leaves 'recv' events without their terminal events
        self.crash_is_violation = prop in MUST_ANSWER or prop == "C20"

    # ---- driver life cycle --------------------------------------------------
    def driver(self):
        if self.drv is None or not self.drv.alive():
            if self.drv is not None:
                self.drv.close()
            env_extra = None
            if self.profile == "cov":
                os.makedirs(os.path.join(build.TARGET, "profraw"), exist_ok=True)
                env_extra = {"LLVM_PROFILE_FILE": os.path.join(build.TARGET, "profraw", "drv-%p.profraw")}
            wrapper, errpath = None, None
            if self.profile == "asan":
                os.makedirs(os.path.join(build.TARGET, "sanitizer"), exist_ok=True)
                env_extra = {"ASAN_OPTIONS": "halt_on_error=1:abort_on_error=1:detect_leaks=1:log_path=" + os.path.join(build.TARGET, "sanitizer", "asan")}
            elif self.profile == "valgrind":
                os.makedirs(os.path.join(build.TARGET, "sanitizer"), exist_ok=True)
                wrapper = ["valgrind", "-q", "--error-exitcode=97", "--exit-on-first-error=yes",
                           "--log-file=" + os.path.join(build.TARGET, "sanitizer", "valgrind-%p.log")]
            self.drv = Driver(self.bin, env_extra=env_extra, wrapper=wrapper)
            self.drv.cfg(self.cfg)
            self._last_table = None
            self.stats["driver_starts"] += 1
        return self.drv

    def reset_table(self):
        self.driver().reset()
        self._last_table = 0
        self.flows_seen = set()
        self.cookie_owner = {}

    def claim_cookie(self, cookie, tuple_):
        """The connection table is keyed by the 32-bit cookie alone (known finding): a session whose cookie equals that of
        another flow living in the same table would continue that flow's stream.  Checks that fill one table with
        thousands of sessions (or work behind 66 000 pre-validated flows) must not mistake such a birthday collision for a
        defect of the property they judge: returns False if the cookie already belongs to another tuple."""
        co = self.__dict__.setdefault("cookie_owner", {})
        o = co.setdefault(cookie, tuple_)
        if o != tuple_:
            self.stats["cookie_collisions_avoided"] += 1
            return False
        return True

    def fresh_flow(self, e, sp, dp, fixed=False):
        """A source port such that (client, server, sp, dp) has not been used since the last table reset: a second
        session on a tuple that still has a control block would continue the first one's stream."""
        seen = self.__dict__.setdefault("flows_seen", set())
        n = 0
        while (e.cip, e.sip, sp, dp) in seen and not fixed and n < 100:
            sp = self.rng.getrandbits(16)
            n += 1
        seen.add((e.cip, e.sip, sp, dp))
        return sp

    def close(self):
        if self.drv is not None:
            self.drv.close()
            self.drv = None

    def case(self, cfg=None, reset=True, record=True):
        """Start a new case: (re)configure, optionally reset the connection table, clear the history."""
        d = self.driver()
        if cfg is not None and (self.cfg is not cfg):
            d.cfg(cfg)
            self.cfg = cfg
        if reset:
            d.reset()
            self._last_table = 0
            self.flows_seen = set()
            self.cookie_owner = {}
        self.history = []
        self.record = record

    # ---- sending --------------------------------------------------------------
    def _guard(self, fn, frames):
        try:
            return fn()
        except DriverDied as e:
            self.stats["driver_deaths"] += 1
            self.violation_c01("death", "process ended rc=%r while a frame was outstanding" % (e.rc,), frames,
                               observed="driver exit status %r" % (e.rc,))
            self.drv = None
            return None
        except DriverHang as e:
            if e.kind == "starved":
                self.inconclusive += 1
                self.stats["watchdog_starved"] += 1
            else:
                self.violation_c01(e.kind, "frame processing does not terminate (%s)" % e.detail, frames,
                                   observed=e.detail)
            if self.drv is not None:
                self.drv.kill()
            self.drv = None
            return None

    def pad(self, f):
        """Ethernet padding / trailer after the IP datagram (never part of the payload): short frames are zero-padded to
        the 60-byte minimum as real NICs do, longer ones sometimes get a 4-byte trailer.  Only applied to IP frames whose
        length fields are consistent, with probability self.pad_rate."""
        if not self.pad_rate or len(f) < 34 or self._pad_rng.random() >= self.pad_rate:
            return f
        et = f[12:14]
        if et == b"\x08\x00":
            if (f[14] & 15) < 5 or int.from_bytes(f[16:18], "big") != len(f) - 14:
                return f
        elif et == b"\x86\xdd":
            if len(f) < 54 or int.from_bytes(f[18:20], "big") != len(f) - 54:
                return f
        else:
            return f
        self.stats["padded_frames"] += 1
        if len(f) < 60:
            return f + bytes(60 - len(f)) if self._pad_rng.random() < 0.7 else f + bytes(self._pad_rng.getrandbits(8) for _ in range(60 - len(f)))
        return f + bytes(self._pad_rng.getrandbits(8) for _ in range(self._pad_rng.choice([1, 4, 4, 18])))

    def send(self, f):
        f = self.pad(f)
        d = self.driver()
        if self.record:
            self.history.append(f)
        r = self._guard(lambda: d.frame(f), [f])
        if r is None:
            self.history = []
            return Res("P", 0, None, [], "driver lost")
        self.evaluations += 1
        self._post(f, r)
        return r

    def send_many(self, fs):
        fs = [self.pad(f) for f in fs]
        d = self.driver()
        base = len(self.history)
        if self.record:
            self.history.extend(fs)
        rs = self._guard(lambda: d.frames(fs), fs)
        if rs is None:
            self.history = []
            return [Res("P", 0, None, [], "driver lost")] * len(fs)
        self.evaluations += len(fs)
        for i, (f, r) in enumerate(zip(fs, rs)):
            self._post(f, r, hist_upto=base + i + 1 if self.record else None)
        return rs

    def _post(self, f, r, hist_upto=None):
        from . import monitors
        if r.kind == "P":
            self.stats["panics"] += 1
            self._universal_hit("C01", "panic:" + monitors.panic_site(r.panic), r.panic, f, hist_upto)
            if self.crash_is_violation and self.prop != "C01":
                # a responder that aborts answers nothing from then on: for the must-answer properties the crash
                # itself is a violation (production has no catch_unwind), reported under its own key
                self.violation("crash:" + monitors.panic_site(r.panic), "the responder panicked while handling this frame (%s): in production the "
                               "process is gone and nothing is answered any more" % r.panic, observed="panic", hist_upto=hist_upto, frame=f)
            return
        if not self.universal:
            return
        # --- C09 (universal part): the table grows by at most one per frame, only on a PSH|ACK segment, and never shrinks
        if self._last_table is not None and r.table != self._last_table:
            d = r.table - self._last_table
            isdata = False
            if len(f) >= 54:
                q0 = pkt.parse(f)
                isdata = q0.get("flags") is not None and q0.flags & 0x18 == 0x18
            if d < 0:
                self._universal_hit("C09", "state_removed", "connection table shrank from %d to %d on one frame" % (self._last_table, r.table), f, hist_upto, r)
            elif d > 1 or not isdata:
                self._universal_hit("C09", "state_created", "connection table grew from %d to %d on a frame that is not a PSH|ACK segment" % (
                    self._last_table, r.table) if not isdata else "connection table jumped from %d to %d" % (self._last_table, r.table), f, hist_upto, r)
        self._last_table = r.table
        # --- C06 (universal part): the cookie of a (key, 4-tuple) never changes
        if r.kind == "R" and len(r.reply) >= 54 and len(f) >= 54:
            a0 = pkt.parse(r.reply)
            if a0.get("flags") == 0x12:
                q0 = pkt.parse(f)
                if q0.get("flags") is not None and q0.flags & 0x02 and q0.flags & 0x18 != 0x18:
                    k = (self.cfg.key, q0.src, q0.dst, q0.sp, q0.dp)
                    old = self._cookies.get(k)
                    if old is not None and old != a0.seq:
                        self._universal_hit("C06", "cookie_unstable", "SYN-ACK sequence number of one (key, 4-tuple) changed from %08x to %08x" % (old, a0.seq), f, hist_upto, r)
                    if len(self._cookies) > 100000:
                        self._cookies.clear()
                    self._cookies[k] = a0.seq
        prior = b""
        if r.kind == "R" or self.cfg.logger != "n":
            # bytes delivered earlier on the same TCP flow (a STUN change-port request may span several segments)
            if len(f) > 54 and f[12:14] in (b"\x08\x00", b"\x86\xdd"):
                q = pkt.parse(f)
                if q.get("flags") is not None and q.flags & 0x18 == 0x18 and q.data:
                    k = (q.src, q.dst, q.sp, q.dp)
                    prior = self._tcp_tail.get(k, b"")
                    if len(self._tcp_tail) > 4000:
                        self._tcp_tail.clear()
                    self._tcp_tail[k] = (prior + q.data)[-2048:]
        if r.kind == "R":
            self.stats["replies"] += 1
            for e in monitors.mirror(f, r.reply, self.cfg, prior):
                self._universal_hit("C03", e.split(" ")[0], e, f, hist_upto, r)
            for e in monitors.wellformed(r.reply):
                self._universal_hit("C04", e.split(" ")[0], e, f, hist_upto, r)
                if self.prop in MUST_ANSWER and e.split(" ")[0] in DISCARDED_BY_RECEIVER:
                    # for the must-answer properties: a frame whose checksum or length fields are wrong is discarded by
                    # the receiving stack, so the request was not answered
                    self.violation("unusable_answer:" + e.split(" ")[0], "the answer is a frame every receiver discards (%s): the request is in effect "
                                   "not answered" % e, observed=r.reply.hex(), hist_upto=hist_upto, frame=f)
        if self.cfg.logger != "n":
            for e in monitors.logcheck(f, r, self.cfg, prior):
                self._universal_hit("C20", e.split(" ")[0], e, f, hist_upto, r)

    def _universal_hit(self, prop, key, what, f, hist_upto, r=None):
        if prop == self.prop:
            self.violation(key, what, observed=(r.reply.hex() if r is not None and r.reply else (r.kind if r else "panic")),
                           hist_upto=hist_upto, frame=f)
        else:
            k = (prop, key)
            self.stats["cross_" + prop] += 1
            if k not in self._cross_seen and len(self.cross) < 20:
                self._cross_seen.add(k)
                self.cross.append({"property": prop, "key": key, "what": what, "frame": f.hex(),
                                   "config": self.cfg.to_json()})

    # ---- verdict bookkeeping ---------------------------------------------------
    def violation_c01(self, key, what, frames, observed=None):
        if self.prop == "C01":
            self.violation(key, what, observed=observed, frame=frames[-1] if frames else None)
        else:
            self.cross.append({"property": "C01", "key": key, "what": what,
                               "frame": frames[-1].hex() if frames else None, "config": self.cfg.to_json()})

    def violation(self, key, what, observed=None, expected=None, frames=None, hist_upto=None, frame=None, note=None,
                  extra=None):
        """Record a violation of this context's own property; a replay file is written by the parent."""
        self.stats["violations_raw"] += 1
        if sum(1 for v in self.violations if v["key"] == key) >= 3 or len(self.violations) >= MAX_VIOL_PER_SHARD:
            return
        if frames is None:
            frames = list(self.history if hist_upto is None else self.history[:hist_upto])
            if frame is not None and (not frames or frames[-1] is not frame) and not self.record:
                frames = [frame]
        v = {"property": self.prop, "key": key, "what": what, "observed": observed, "expected": expected,
             "note": note, "config": self.cfg.to_json(), "frames": [x if isinstance(x, str) else x.hex() for x in frames[-400:]],
             "frames_dropped": max(0, len(frames) - 400), "seed": self.seed, "shard": self.shard,
             "tier": self.tier, "profile": self.profile}
        if extra:
            v["extra"] = extra
        self.violations.append(v)

    def nontrivial(self, *parts):
        self.nt.add(h64(*parts))

    def sample(self, obj, cap=6):
        if len(self.samples) < cap:
            self.samples.append(obj)

    def result(self):
        return {"stats": dict(self.stats), "nt": self.nt, "violations": self.violations, "cross": self.cross,
                "samples": self.samples, "inconclusive": self.inconclusive, "evaluations": self.evaluations,
                "extra": self.extra, "shard": self.shard, "profile": self.profile}


def _worker(args):
    fn, prop, tier, seed, shard, nshards, profile, kw = args
    ctx = None
    try:
        ctx = Ctx(prop, tier, seed, shard, nshards, profile)
        fn(ctx, **kw)
        res = ctx.result()
    except Exception:
        res = {"error": traceback.format_exc(), "shard": shard, "profile": profile}
        if ctx is not None:
            part = ctx.result()
            part.update(res)
            res = part
    finally:
        if ctx is not None:
            ctx.close()
    return res


def run_shards(fn, prop, tier, seed, nshards=None, profile="debug", **kw):
    """Run fn(ctx, **kw) in nshards processes; returns the list of per-shard result dicts."""
    nshards = nshards or NSHARDS
    build.binary(profile)
    jobs = [(fn, prop, tier, seed, s, nshards, profile, kw) for s in range(nshards)]
    if nshards == 1:
        return [_worker(jobs[0])]
    mp = multiprocessing.get_context("fork")
    with mp.Pool(nshards) as pool:
        return pool.map(_worker, jobs, chunksize=1)


class Verdict:
    """Merges shard results, applies the known-findings file, writes evidence + replays, prints the verdict."""

    def __init__(self, prop, tier, seed):
        self.prop, self.tier, self.seed = prop, tier, seed
        self.t0 = time.time()
        self.stats = collections.Counter()
        self.nt = set()
        self.violations = []
        self.cross = []
        self.samples = []
        self.inconclusive = 0
        self.evaluations = 0
        self.errors = []
        self.extra = {}
        self.known_reproduced = collections.OrderedDict()
        self.notes = []

    def merge(self, results):
        for r in results:
            if "error" in r:
                self.errors.append("shard %s (%s): %s" % (r.get("shard"), r.get("profile"), r["error"]))
            for k, v in r.get("stats", {}).items():
                self.stats[k] += v
            self.nt |= r.get("nt", set())
            self.violations.extend(r.get("violations", []))
            for c in r.get("cross", []):
                if len(self.cross) < 40:
                    self.cross.append(c)
            for s in r.get("samples", []):
                if len(self.samples) < 12:
                    self.samples.append(s)
            self.inconclusive += r.get("inconclusive", 0)
            self.evaluations += r.get("evaluations", 0)
            for k, v in r.get("extra", {}).items():
                if isinstance(v, (int, float)) and isinstance(self.extra.get(k, 0), (int, float)):
                    self.extra[k] = self.extra.get(k, 0) + v
                elif isinstance(v, dict):
                    d = self.extra.setdefault(k, {})
                    for kk, vv in v.items():
                        d[kk] = d.get(kk, 0) + vv if isinstance(vv, (int, float)) else vv
                elif isinstance(v, list):
                    self.extra.setdefault(k, [])
                    self.extra[k] = (self.extra[k] + v)[:50]
                else:
                    self.extra[k] = v

    def finish(self, rule, floor, assumptions, explanation=None, exhaustive=None, more=None):
        from . import findings
        os.makedirs(REPLAY_DIR, exist_ok=True)
        os.makedirs(EVIDENCE_DIR, exist_ok=True)
        kf = findings.load()
        unlisted = []
        seen_keys = {}
        for v in self.violations:
            ent = findings.match(kf, self.prop, v["key"])
            if ent is not None:
                self.known_reproduced.setdefault(ent["key"], [ent, 0])
                self.known_reproduced[ent["key"]][1] += 1
                continue
            if v["key"] in seen_keys:
                seen_keys[v["key"]] += 1
                continue
            seen_keys[v["key"]] = 1
            name = "%s-%s-%016x.json" % (self.prop, self.tier, h64(v["key"], json.dumps(v["frames"][-3:])))
            path = os.path.join(REPLAY_DIR, name)
            with open(path, "w") as f:
                json.dump(v, f, indent=1)
            unlisted.append((v, path))
        wall = time.time() - self.t0
        nviol = len(unlisted)
        cov = {"evaluations": int(self.evaluations), "distinct_nontrivial": len(self.nt), "rule": rule,
               "samples": self.samples[:12] or ["(none)"],
               "stats": {k: int(v) for k, v in sorted(self.stats.items())},
               "inconclusive": int(self.inconclusive),
               "known_findings_reproduced": [{"key": k, "count": c, "what": e["what"]}
                                             for k, (e, c) in self.known_reproduced.items()],
               "cross_property_observations": self.cross[:40],
               "violation_keys": {v["key"]: seen_keys[v["key"]] for v, _ in unlisted}}
        if explanation:
            cov["explanation"] = explanation
        if exhaustive is not None:
            cov["exhaustive"] = bool(exhaustive)
        cov.update(self.extra)
        if more:
            cov.update(more)
        ev = {"property_id": self.prop, "tier": self.tier, "seed": int(self.seed), "level": "exploration",
              "coverage": cov, "assumptions": assumptions, "wall_s": round(wall, 2), "violations": nviol}
        with open(os.path.join(EVIDENCE_DIR, self.prop + ".json"), "w") as f:
            json.dump(ev, f, indent=1, default=str)
        for n in self.notes:
            print(n)
        print("%s %s seed=%d: %d evaluations, %d distinct non-trivial, %d inconclusive, %.1fs" % (
            self.prop, self.tier, self.seed, self.evaluations, len(self.nt), self.inconclusive, wall))
        for k, (e, c) in self.known_reproduced.items():
            print("KNOWN-FINDING: property=%s %s [key=%s, reproduced %d time(s)]" % (self.prop, e["what"], k, c))
        if self.errors:
            for e in self.errors[:5]:
                print("ERROR " + e.strip().replace("\n", "\n      "))
            if not unlisted:
                return 2
        for v, path in unlisted[:15]:
            print("VIOLATION property=%s replay=%s" % (self.prop, path))
            print("   key=%s: %s" % (v["key"], (v["what"] or "")[:300]))
        if unlisted:
            return 1
        if len(self.nt) < floor:
            print("ERROR observed too little: %d distinct non-trivial cases < floor %d (inconclusive run)" % (len(self.nt), floor))
            return 2
        return 0
