"""Universal monitors: predicates over any (frame, reply, log lines) triple.

mirror()      C03  replies go back to the asker from the identity asked
wellformed()  C04  every emitted frame parses cleanly at each layer
logcheck()    C20  per-frame event log is balanced, nested, complete and matches the frame

Each returns a list of strings "<key> <details>"; an empty list means "held".
"""
import re
import socket
import struct

from . import pkt, sigref
from .pkt import ET_ARP, ET_IP4, ET_IP6, P_ICMP, P_ICMP6, P_TCP, P_UDP, csum_ok, pseudo


def panic_site(msg):
    """file:line of a panic message recorded by the driver (dedup key)."""
    if not msg:
        return "?"
    return msg.split(" ", 1)[0]


# ---------------------------------------------------------------------------------------------
# STUN change-port detection used by the port-mirror exception (own TLV walk, RFC 3489/5389)
# ---------------------------------------------------------------------------------------------
def stun_change_port_counts(payload):
    """Set of plausible numbers of CHANGE-REQUEST attributes with the change-port bit, for a payload that
    is framed like a STUN message; empty set if it is not.  Two attribute walks are
    tried (with and without RFC 5389 padding) because the property does not say which one applies."""
    # deliberately lenient about the message type: *when* the exception applies is C15's business, the mirror and
    # log monitors only need to know that a port shift can be explained by a change-port attribute
    if len(payload) < 20:
        return set()
    mlen = struct.unpack("!H", payload[2:4])[0]
    if len(payload) < 20 + mlen:
        return set()
    body = payload[20:20 + mlen]
    out = set()
    for pad in (False, True):
        i, k = 0, 0
        while i + 4 <= len(body):
            t, l = struct.unpack("!HH", body[i:i + 4])
            v = body[i + 4:i + 4 + l]
            if t == 3 and len(v) >= 4 and struct.unpack("!I", v[:4])[0] & 2:
                k += 1
            i += 4 + l
            if pad and l % 4:
                i += 4 - l % 4
        out.add(k)
    return out


# ---------------------------------------------------------------------------------------------
# C03
# ---------------------------------------------------------------------------------------------
def mirror(f, r, cfg, prior=b""):
    """prior: bytes already delivered on the same TCP flow (a STUN request may be split over several segments)."""
    errs = []
    if len(r) < 14 or len(f) < 14:
        return ["short reply shorter than an Ethernet header"]
    if r[6:12] != cfg.mac:
        errs.append("eth_src %s is not the configured MAC" % pkt.mac_s(r[6:12]))
    if r[0:6] != f[6:12]:
        errs.append("eth_dst %s is not the request's source %s" % (pkt.mac_s(r[0:6]), pkt.mac_s(f[6:12])))
    if r[12:14] != f[12:14]:
        errs.append("ethertype %s differs from the request's %s" % (r[12:14].hex(), f[12:14].hex()))
        return errs
    q, a = pkt.parse(f), pkt.parse(r)
    if "v" not in a or "v" not in q:
        return errs
    if a.v != q.v:
        errs.append("ipversion %d != %d" % (a.v, q.v))
        return errs
    if a.dst != q.src:
        errs.append("ip_dst %s is not the request's source %s" % (pkt.ip_s(a.dst), pkt.ip_s(q.src)))
    if a.proto != q.proto:
        errs.append("proto %d != %d" % (a.proto, q.proto))
        return errs
    exp_src = q.dst
    if a.proto == P_ICMP6 and a.v == 6 and a.itype == 136 and q.itype == 135 and len(q.irest) >= 20:
        exp_src = q.irest[4:20]
    if a.src != exp_src:
        errs.append("ip_src %s is not the identity asked %s" % (pkt.ip_s(a.src), pkt.ip_s(exp_src)))
    if a.proto in (P_TCP, P_UDP) and "sp" in a and "sp" in q:
        if a.dp != q.sp:
            errs.append("dport %d is not the request's source port %d" % (a.dp, q.sp))
        ks = stun_change_port_counts(q.data)
        if prior:
            ks |= stun_change_port_counts(prior + q.data)
        if a.sp != q.dp:
            ok = any(a.sp == (q.dp + k) & 0xFFFF for k in ks if k > 0)
            if not ok:
                errs.append("sport %d is not the request's destination port %d" % (a.sp, q.dp))
        elif ks == {1} and "ulen" in q and a.get("data") and a.data[:2] != b"\x01\x01" and sigref.identify(q.data, True) == sigref.STUN:
            # a datagram that completes a STUN signature and asks for a port change is STUN's to answer: whoever answers it
            # from the unchanged port (another responder that got hold of it) breaks the one exception to "ports swapped"
            errs.append("stun_port change-port request to port %d answered (not by the STUN responder) from port %d instead of %d" % (q.dp, a.sp, (q.dp + 1) & 0xFFFF))
        elif ks == {1} and a.get("data") and len(a.data) >= 20 and a.data[:2] == b"\x01\x01":
            # the reply *is* a STUN success response to a request with exactly one change-port CHANGE-REQUEST
            # (under both attribute walks): it has to come from the next port
            req = q.data if len(q.data) >= 20 and a.data[4:20] == q.data[4:20] else (prior + q.data)
            if len(req) >= 20 and req[:2] == b"\x00\x01" and a.data[4:20] == req[4:20]:
                errs.append("stun_port change-port request to port %d answered from port %d instead of %d" % (q.dp, a.sp, (q.dp + 1) & 0xFFFF))
    return errs


# ---------------------------------------------------------------------------------------------
# C04
# ---------------------------------------------------------------------------------------------
def wellformed(r):
    errs = []
    if len(r) < 14:
        return ["eth_short %d bytes" % len(r)]
    et = struct.unpack("!H", r[12:14])[0]
    p = r[14:]
    if et == ET_ARP:
        if len(p) < 28:
            errs.append("arp_short %d" % len(p))
        return errs
    if et == ET_IP4:
        if len(p) < 20:
            return ["ip4_short %d" % len(p)]
        if p[0] >> 4 != 4:
            errs.append("ip4_version %d" % (p[0] >> 4))
        ihl = (p[0] & 15) * 4
        if ihl != 20:
            errs.append("ip4_ihl %d (header really is 20 bytes)" % ihl)
        tot = struct.unpack("!H", p[2:4])[0]
        if tot != len(p):
            errs.append("ip4_totlen %d != %d actual" % (tot, len(p)))
        fo = struct.unpack("!H", p[6:8])[0]
        if fo & 0x3FFF:
            errs.append("ip4_fragmented flags/offset %04x" % fo)
        if p[8] < 1:
            errs.append("ip4_ttl 0")
        if not csum_ok(p[:20]):
            errs.append("ip4_hdrsum invalid")
        src, dst, proto, l4 = p[12:16], p[16:20], p[9], p[20:]
    elif et == ET_IP6:
        if len(p) < 40:
            return ["ip6_short %d" % len(p)]
        if p[0] >> 4 != 6:
            errs.append("ip6_version %d" % (p[0] >> 4))
        pl = struct.unpack("!H", p[4:6])[0]
        if pl != len(p) - 40:
            errs.append("ip6_plen %d != %d actual" % (pl, len(p) - 40))
        if p[7] < 1:
            errs.append("ip6_hlim 0")
        src, dst, proto, l4 = p[8:24], p[24:40], p[6], p[40:]
        if proto == P_ICMP6 and l4[:1] == b"\x88" and p[7] != 255:
            errs.append("ip6_na_hlim %d != 255" % p[7])
    else:
        return ["eth_type %04x" % et]
    if proto == P_ICMP and et == ET_IP4:
        if len(l4) < 4:
            errs.append("icmp_short")
        elif not csum_ok(l4):
            errs.append("icmp_sum invalid")
    elif proto == P_ICMP6 and et == ET_IP6:
        if len(l4) < 4:
            errs.append("icmp6_short")
        elif not csum_ok(pseudo(src, dst, proto, len(l4)) + l4):
            errs.append("icmp6_sum invalid")
    elif proto == P_UDP:
        if len(l4) < 8:
            return errs + ["udp_short"]
        ul, uc = struct.unpack("!HH", l4[4:8])
        if ul != len(l4):
            errs.append("udp_len %d != %d actual" % (ul, len(l4)))
        if uc == 0:
            if et == ET_IP6:
                errs.append("udp6_zero_sum transmitted checksum is 0 over IPv6")
        elif not csum_ok(pseudo(src, dst, proto, len(l4)) + l4):
            errs.append("udp_sum invalid")
    elif proto == P_TCP:
        if len(l4) < 20:
            return errs + ["tcp_short"]
        of = struct.unpack("!H", l4[12:14])[0]
        if of >> 12 != 5:
            errs.append("tcp_doff %d (header really is 20 bytes)" % (of >> 12))
        if (of & 0x12) == 0x12 and struct.unpack("!H", l4[14:16])[0] == 0:
            errs.append("tcp_synack_win0")
        if not csum_ok(pseudo(src, dst, proto, len(l4)) + l4):
            errs.append("tcp_sum invalid")
    else:
        errs.append("l4_proto %d unexpected in a reply" % proto)
    return errs


# ---------------------------------------------------------------------------------------------
# C20
# ---------------------------------------------------------------------------------------------
L3 = ("arp", "ipv4", "ipv6")
L4 = ("icmpv4", "icmpv6", "tcp", "udp")
DEPTH = {"eth": 0, "arp": 1, "ipv4": 1, "ipv6": 1, "icmpv4": 2, "icmpv6": 2, "tcp": 2, "udp": 2}
CONSOLE_NF = {"arp": 8, "eth": 11, "ipv4": 11, "ipv6": 11, "icmpv4": 12, "icmpv6": 12, "tcp": 13, "udp": 11}
TS_RE = re.compile(r"^\d+\.\d{1,3}$")
LOGFMT_TAIL = {"eth": ["eth_type"], "ipv4": ["next_proto"], "ipv6": ["next_proto"],
               "icmpv4": ["icmp_type", "icmp_code"], "icmpv6": ["icmpv6_type", "icmpv6_code"],
               "tcp": ["flags", "seq", "ack"], "udp": [], "arp": ["op"]}
CI_KEYS = ["mac_src", "mac_dst", "ip_src", "ip_dst", "transport", "port_src", "port_dst"]


class Ev:
    __slots__ = ("proto", "verb", "f", "raw")

    def __init__(self, proto, verb, f, raw):
        self.proto, self.verb, self.f, self.raw = proto, verb, f, raw


def parse_console(line):
    """-> Ev or error string"""
    f = line.split("\t")
    if len(f) < 3:
        return "syntax partial or malformed console line %r" % line[:120]
    if not TS_RE.match(f[0]):
        return "syntax bad timestamp %r" % f[0][:40]
    proto, verb = f[1], f[2]
    if proto not in CONSOLE_NF:
        return "syntax unknown proto %r" % proto[:20]
    if verb not in ("recv", "send", "drop"):
        return "syntax unknown verb %r" % verb[:20]
    if len(f) != CONSOLE_NF[proto]:
        return "syntax %s line has %d fields, expected %d" % (proto, len(f), CONSOLE_NF[proto])
    d = {}
    if proto == "arp":
        d = {"mac_src": f[3], "mac_dst": f[4], "ip_src": f[5], "ip_dst": f[6], "op": f[7]}
        if verb == "send":
            # send lines print target first
            d = {"mac_dst": f[3], "mac_src": f[4], "ip_dst": f[5], "ip_src": f[6], "op": f[7]}
    else:
        for k, v in zip(CI_KEYS, f[3:10]):
            if v != "":
                d[k] = v
        tail = f[10:]
        for k, v in zip(LOGFMT_TAIL[proto], tail):
            d[k] = v
    return Ev(proto, verb, d, line)


def parse_logfmt(line):
    toks = line.split()
    d = {}
    order = []
    for t in toks:
        if "=" not in t:
            return "syntax logfmt token without '=': %r in %r" % (t[:30], line[:120])
        k, v = t.split("=", 1)
        if k in d:
            return "syntax logfmt duplicate key %r" % k
        d[k] = v
        order.append(k)
    for k in ("ts", "proto", "verb"):
        if k not in d:
            return "syntax logfmt line without %s: %r" % (k, line[:120])
    if order[:3] != ["ts", "proto", "verb"] or not TS_RE.match(d["ts"]):
        return "syntax logfmt prolog malformed: %r" % line[:80]
    proto, verb = d["proto"], d["verb"]
    if proto not in CONSOLE_NF:
        return "syntax unknown proto %r" % proto[:20]
    if verb not in ("recv", "send", "drop"):
        return "syntax unknown verb %r" % verb[:20]
    for k in LOGFMT_TAIL[proto]:
        if k not in d:
            return "syntax logfmt %s line lacks %s" % (proto, k)
    allowed = set(CI_KEYS) | set(LOGFMT_TAIL[proto]) | {"ts", "proto", "verb"}
    for k in d:
        if k not in allowed:
            return "syntax logfmt %s line has unexpected key %r" % (proto, k)
    if proto == "arp" and not all(k in d for k in ("mac_src", "mac_dst", "ip_src", "ip_dst")):
        return "syntax logfmt arp line lacks addresses"
    return Ev(proto, verb, d, line)


def _mac_eq(txt, b):
    try:
        return pkt.mac(txt) == b
    except Exception:
        return False


def _ip_eq(txt, b):
    try:
        return pkt.ip(txt) == b
    except Exception:
        return False


def frame_layers(f):
    """Layers structurally present in the frame (upper bound of what can be logged)."""
    q = pkt.parse(f)
    ls = set()
    if "etype" not in q:
        return ls, q
    ls.add("eth")
    if q.etype == ET_ARP and len(q.l3) >= 28:
        ls.add("arp")
    elif q.etype == ET_IP4 and "v" in q:
        ls.add("ipv4")
        if q.proto == P_ICMP and len(q.l4) >= 4:
            ls.add("icmpv4")
    elif q.etype == ET_IP6 and "v" in q:
        ls.add("ipv6")
        if q.proto == P_ICMP6 and len(q.l4) >= 4:
            ls.add("icmpv6")
    if "v" in q:
        if q.proto == P_TCP and len(q.l4) >= 20:
            ls.add("tcp")
        if q.proto == P_UDP and len(q.l4) >= 8:
            ls.add("udp")
    return ls, q


def log_events(res, cfg):
    """Parse the log lines of one frame; returns (events, errors)."""
    evs, errs = [], []
    parser = parse_console if cfg.logger == "c" else parse_logfmt
    for l in res.logs:
        e = parser(l)
        if isinstance(e, str):
            errs.append(e)
        else:
            evs.append(e)
    return evs, errs


def log_word(evs):
    return " ".join("%s-%s" % (e.proto, e.verb) for e in evs)


def logcheck(f, res, cfg, prior=b""):
    if cfg.logger == "n":
        return []
    evs, errs = log_events(res, cfg)
    if errs:
        return errs
    if len(f) < 14:
        return ["events logged for a frame shorter than an Ethernet header"] if evs else []
    if not evs:
        return ["balance no event at all for a processed frame"]
    # --- grammar: eth-recv [ L3-recv [ L4-recv L4-term ] L3-term ] eth-term
    stack = []
    seen = set()
    terms = {}
    for e in evs:
        if e.verb == "recv":
            want = len(stack)
            if DEPTH[e.proto] != want:
                errs.append("balance %s recv at depth %d (open: %s) in [%s]" % (e.proto, want, ",".join(stack), log_word(evs)))
                return errs
            if e.proto in seen:
                errs.append("balance second %s recv in [%s]" % (e.proto, log_word(evs)))
                return errs
            seen.add(e.proto)
            stack.append(e.proto)
        else:
            if not stack or stack[-1] != e.proto:
                errs.append("balance %s %s without matching open recv (open: %s) in [%s]" % (e.proto, e.verb, ",".join(stack), log_word(evs)))
                return errs
            stack.pop()
            terms[e.proto] = e.verb
            if stack == [] and e is not evs[-1]:
                errs.append("balance events after the Ethernet terminal event in [%s]" % log_word(evs))
                return errs
    if stack:
        errs.append("balance no terminal event for %s in [%s]" % (",".join(stack), log_word(evs)))
        return errs
    # inner send only under outer send
    order = [e.proto for e in evs if e.verb == "recv"]
    for inner, outer in zip(order[1:], order[:-1]):
        if terms[inner] == "send" and terms[outer] != "send":
            errs.append("balance %s send inside %s %s in [%s]" % (inner, outer, terms[outer], log_word(evs)))
    replied = res.kind == "R"
    if (terms.get("eth") == "send") != replied:
        errs.append("fate eth terminal is %s but reply emitted=%s" % (terms.get("eth"), replied))
    # --- layers logged must be layers the frame really has
    present, q = frame_layers(f)
    for p in order:
        if p not in present:
            errs.append("layers %s events for a frame without that layer [%s]" % (p, log_word(evs)))
    # --- fields
    for e in evs:
        d = e.f
        if e.proto == "arp":
            if "arp_sha" in q:
                if e.verb in ("recv", "drop"):
                    ok = _mac_eq(d["mac_src"], q.arp_sha) and _mac_eq(d["mac_dst"], q.arp_tha) and \
                        _ip_eq(d["ip_src"], q.arp_spa) and _ip_eq(d["ip_dst"], q.arp_tpa)
                else:
                    # reply line: the two parties of the exchange, in either orientation
                    try:
                        ok = {pkt.mac(d["mac_src"]), pkt.mac(d["mac_dst"])} == {q.arp_sha, cfg.mac} and \
                            {pkt.ip(d["ip_src"]), pkt.ip(d["ip_dst"])} == {q.arp_spa, q.arp_tpa}
                    except Exception:
                        ok = False
                if not ok:
                    errs.append("fields arp %s line does not match the frame: %r" % (e.verb, e.raw[:160]))
            continue
        if "mac_src" in d and not _mac_eq(d["mac_src"], q.eth_src):
            errs.append("fields mac_src %s != %s" % (d["mac_src"], pkt.mac_s(q.eth_src)))
        if "mac_dst" in d and not _mac_eq(d["mac_dst"], q.eth_dst):
            errs.append("fields mac_dst %s != %s" % (d["mac_dst"], pkt.mac_s(q.eth_dst)))
        if "ip_src" in d and ("src" not in q or not _ip_eq(d["ip_src"], q.src)):
            errs.append("fields ip_src %s != frame's" % d["ip_src"])
        if "ip_dst" in d and ("dst" not in q or not _ip_eq(d["ip_dst"], q.dst)):
            errs.append("fields ip_dst %s != frame's" % d["ip_dst"])
        if "port_src" in d and ("sp" not in q or d["port_src"] != str(q.sp)):
            errs.append("fields port_src %s != frame's %s" % (d["port_src"], q.get("sp")))
        if "port_dst" in d and ("dp" not in q or d["port_dst"] != str(q.dp)):
            ok = False
            if "dp" in q and e.verb == "send":
                ks = stun_change_port_counts(q.get("data", b""))
                if prior:
                    ks |= stun_change_port_counts(prior + q.get("data", b""))
                ok = any(d["port_dst"] == str((q.dp + k) & 0xFFFF) for k in ks if k > 0)
            if not ok:
                errs.append("fields port_dst %s != frame's %s" % (d["port_dst"], q.get("dp")))
        if DEPTH[e.proto] == 2 and ("mac_src" not in d or "ip_src" not in d):
            errs.append("fields %s %s line lacks addresses" % (e.proto, e.verb))
        if e.proto in ("tcp", "udp") and ("port_src" not in d or "port_dst" not in d):
            errs.append("fields %s %s line lacks ports" % (e.proto, e.verb))
    return errs
