"""C18 - SSH and Gh0st: banner exchanges are answered exactly, malformed ones are not."""
import time

from .. import core, gen, pkt, sigref
from ..applab import AppLab
from ..protos import sshghost

PROP = "C18"
RULE = ("identification strings 'SSH-(2.0|1.99)[0-9.]*-<software>[ SP comment] CR LF [trailing bytes]' with arbitrary software / "
        "comment bytes (NUL, >= 0x80, lone CR; never LF, software without SP) must be answered with exactly 'SSH-2.0-1\\r\\n'; "
        "unterminated, LF-only, CR-only, bad version character and proper-prefix variants must stay unanswered. Payloads "
        "starting with the Gh0st magic followed by 0..1400 arbitrary bytes must be answered with a Gh0st frame whose declared "
        "total equals the frame length and whose zlib stream (CPython zlib) ends exactly at the end of the frame and inflates to "
        "the declared size. UDP and validated TCP flows (one segment), random ports, both IP versions. Non-trivial = every "
        "judged case; distinct = distinct payload bytes x transport.")
ASSUME = ["a bare LF inside the software or comment string is neither required nor forbidden to be accepted (not generated)"]


def shard(ctx, budget_s):
    rng = ctx.rng
    deadline = time.time() + budget_s
    n = 0
    while time.time() < deadline or n == 0:
        cfg = gen.rnd_config(rng, deny=False, logger=rng.choice("nnncl"), level=rng.choice([0, 0, 2, 3, 4, 5]))
        ctx.case(cfg)
        lab = AppLab(ctx, cfg)
        for _ in range(60):
            tr = rng.choice(["tcp", "udp"])
            b = sshghost.gen_banner(rng)
            if sigref.identify(b, tr == "udp") == sigref.SSH:
                a = lab.ask(b, tr)
                ctx.stats["ssh_positive"] += 1
                ctx.nontrivial("ssh", b, tr)
                for e in sshghost.check_ssh(a.rep):
                    ctx.violation("ssh:" + e.split(" ")[0], "%s; identification %r over %s" % (e, b[:80], tr), observed=(a.rep or b"").hex()[:100])
            if rng.random() < 0.2 and sigref.identify(b, False) == sigref.SSH and b.endswith(b"\r\n"):
                # SSH banners are parsed per segment once identified: only cuts inside the signature are constrained
                cutp = rng.randrange(1, 7)
                reps = lab.ask_segments(b, [cutp])
                if reps is not None:
                    ctx.stats["ssh_segmented"] += 1
                    if reps[0] is not None or reps[-1] != sshghost.SSH_REPLY:
                        ctx.violation("ssh:segmented", "identification %r cut at %d (inside the signature): replies %r" % (b[:40], cutp, reps), observed=str(reps)[:200])
            kind = rng.choice(sshghost.SSH_FAULTS)
            bad = sshghost.gen_bad_banner(rng, kind)
            a = lab.ask(bad, tr)
            ctx.stats["ssh_negative_" + kind] += 1
            ctx.nontrivial("sshneg", kind, bad, tr)
            if a.rep is not None:
                ctx.violation("ssh_answered:" + kind, "malformed identification (%s) %r answered with %r" % (kind, bad[:60], a.rep[:30]),
                              observed=a.rep.hex()[:100], expected="silence")
            g = sshghost.gen_ghost(rng)
            if sigref.identify(g, tr == "udp") == sigref.GHOST:
                a = lab.ask(g, tr)
                ctx.stats["ghost_positive"] += 1
                ctx.nontrivial("ghost", g[:64], len(g), tr)
                for e in sshghost.check_ghost(a.rep):
                    ctx.violation("ghost:" + e.split(" ")[0], "%s; Gh0st payload of %d bytes over %s" % (e, len(g), tr), observed=(a.rep or b"").hex()[:100])
            if ctx.shard == 0 and len(ctx.samples) < 3:
                ctx.sample({"banner": repr(b[:80]), "bad": repr(bad[:60])})
        n += 1


def run(tier, seed):
    v = core.Verdict(PROP, tier, seed)
    v.merge(core.run_shards(shard, PROP, tier, seed, budget_s=15 if tier == "quick" else 150))
    return v.finish(RULE, floor=500, assumptions=ASSUME)
