"""C10 - protocol identification is decided by leading bytes against the signature set.

1. matcher level (exhaustive): product of the compiled matcher (stepped through the driver) with the reference
   signature automaton, all 256 bytes + end-of-input from every reachable product state -> divergence edges.
2. frame level (decides): every divergence edge is turned into a complete valid request (or a payload completing no
   signature) and sent over UDP/TCP; only observable consequences count.  Agreeing edges get witnesses too.
3. segmentation / address independence of the decision, read from the connection-table dump.
"""
import json
import os
import struct
import time

from .. import core, gen, pkt, sigref, matcher, findings, build
from ..flow import Flow, app_payload, cut
from ..protos import http, stun, rpc, smb, sshghost, dns
from ..sigref import HTTP, STUN, SSH, GHOST, RPC_TCP, RPC_UDP, SMB1, SMB2, NOMATCH, SIGS

PROP = "C10"
RULE = ("(1) exhaustive product exploration of the compiled matcher against the reference signature automaton: every "
        "reachable product state x (256 bytes + end-of-input); divergences are death edges (the compiled matcher can never "
        "match again although a signature is still alive), completion misses, wrong ids and false positives, in byte-class "
        "form. (2) every divergence edge and every agreeing completion edge is instantiated as a concrete payload (constraint "
        "solving over the product graph so that the payload is a complete valid request of the signature's protocol) and "
        "sent over UDP and inside a validated TCP flow: a miss counts only if the valid request is not answered by its "
        "protocol's responder, a false positive only if a payload completing no signature is answered by a signature-"
        "dispatched responder or is withheld from the DNS fallback that answers its one-byte-shorter sibling. (3) for every "
        "witness: every single cut, sampled multi-cuts and byte-wise delivery on random ports / addresses / IP versions; the "
        "identification read from the connection-table dump must equal the unsegmented one; one shard repeats 16 split-signature sessions on a busy responder (66 000 other connections validated before the session, 66 000 between its two segments) and compares the answers with the idle run. Non-trivial = product edges "
        "explored + witnesses confirmed; distinct = distinct (edge key, transport) and (witness, segmentation).")
ASSUME = ["the reference signature set is the published one (19 patterns, '*' = any byte, all begin-anchored, STUN_EMPTY and STUN_CHANGE_REQUEST also end-anchored)",
          "a divergence edge through which no complete valid request (or answerable payload) can be routed is reported as unconfirmed, not as a violation",
          "product exploration is bounded at 40 bytes (the longest signature has 28)"]

ANY = (1 << 256) - 1
G_SHADOW = "matcher:literal-shadows-wildcard"
G_END = "matcher:end-symbol-matches-trailing-wildcard"


# ---- valid-request forms per protocol: (full request bytes, set of free positions) -----------------------------------
def forms(pid, rng):
    out = []
    rb = lambda n: bytes(rng.getrandbits(8) for _ in range(n))
    if pid == HTTP:
        for v in http.VERBS:
            out.append(((v + " /x HTTP/1.1\r\nHost: a\r\n\r\n").encode(), set()))
        for _ in range(6):
            # requests from the full grammar (header names with every token character, odd versions, bare LF ...): the
            # signature is the verb and "/" alone
            p = http.gen_parts(rng, max_target=30, max_headers=4)
            if p["target"].startswith(b"/"):
                p["headers"].append((bytes(rng.choice(b"!#$%&'*+-.^_`|~0aZ") for _x in range(rng.randrange(1, 9))), b" 1"))
                p["eols"].insert(1, p["eols"][0])
                out.append((http.build(p), set()))
    elif pid == SSH:
        out.append((b"SSH-2.0-OpenSSH_9.0\r\n", set()))
        out.append((b"SSH-1.99-x y\r\n", set()))
        out.append((b"SSH-2.00-x\r\n", set()))
        out.append((b"SSH-2.0.1-x\r\n", set()))
        out.append((b"SSH-1.995-y z\r\n", set()))
        for _ in range(6):
            out.append((sshghost.gen_banner(rng), set()))        # the full grammar: long strings, length boundaries, lone CR / LF bytes
    elif pid == GHOST:
        out.append((b"Gh0st" + rb(8), set(range(5, 13))))
    elif pid == STUN:
        for L in (0, 4, 8, 12, 16, 0x24, 0xFC, 0x100, 0x104, 0x200, 0x3FC):
            body = stun.gen_attrs(rng, L)
            out.append((stun.msg(1, stun.MAGIC + rb(12), body), set(range(8, 20))))
        tid = stun.MAGIC + rb(12)
        out.append((stun.msg(1, tid, struct.pack("!HH", 3, 4) + b"\0\0\0\x02"), set(range(8, 20)) | {27}))
        out.append((stun.msg(1, rb(16)), set(range(4, 20))))
        out.append((stun.msg(1, rb(16), struct.pack("!HH", 3, 4) + b"\0\0\0\x02"), set(range(4, 20)) | {27}))
        # cookie-less forms whose transaction id also reads as a DNS header (and question): still STUN's to answer
        for tid in (bytes(16), b"\x00\x01\x00\x00\x00\x00\x00\x00\x02fr\x00\x00\x01\x00\x01", bytes(8) + rb(8)):
            out.append((stun.msg(1, tid), set()))
            out.append((stun.msg(1, tid, struct.pack("!HH", 3, 4) + b"\0\0\0" + bytes([rng.choice([0, 2, 4, 6])])), set()))
    elif pid == RPC_UDP:
        for nargs in (0, 4):
            m = rpc.call(rng.getrandbits(32), 100000, 2, 3, args=rb(nargs))
            out.append((m, {0, 1, 2, 3, 15, 16, 17, 18, 19, 23}))
        # every version / procedure combination is answered by the RPC responder (with a mismatch / unavailable reply at least)
        for vers, proc in ((0, 3), (1, 4), (1, 3), (5, 0), (0x10003, 3), (0xFFFFFFFF, 4)):
            out.append((rpc.call(rng.getrandbits(32), rng.choice([100000, 100000, 99900, 100003]), vers, proc), {0, 1, 2, 3, 15, 16, 17, 18, 19, 23}))
        # AUTH_SYS credentials as every real client sends them (stamp, machine name, uid, gid, gids), AUTH_SHORT verifier
        cred = struct.pack("!I", rng.getrandbits(32)) + rpc.xdr_string(b"scanner") + struct.pack("!III", 0, 0, 0)
        out.append((rpc.call(rng.getrandbits(32), 100000, 2, 4, cred=cred, cred_flavor=1), {0, 1, 2, 3, 15, 16, 17, 18, 19, 23}))
        out.append((rpc.call(rng.getrandbits(32), 100000, 3, 0, cred=cred, cred_flavor=1, verf=rb(8), verf_flavor=2), {0, 1, 2, 3, 15, 16, 17, 18, 19, 23}))
    elif pid == RPC_TCP:
        for nargs in (0, 4, 8, 0x100 - 40):
            m = rpc.record(rpc.call(rng.getrandbits(32), 100000, 2, 3, args=rb(nargs)))
            out.append((m, {4, 5, 6, 7, 19, 20, 21, 22, 23, 27}))
        cred = struct.pack("!I", rng.getrandbits(32)) + rpc.xdr_string(b"scanner") + struct.pack("!III", 0, 0, 0)
        out.append((rpc.record(rpc.call(rng.getrandbits(32), 100000, 2, 4, cred=cred, cred_flavor=1)), {4, 5, 6, 7, 19, 20, 21, 22, 23, 27}))
        for vers, proc in ((0, 3), (1, 4), (5, 0), (0x10003, 3)):
            out.append((rpc.record(rpc.call(rng.getrandbits(32), rng.choice([100000, 100000, 99900]), vers, proc)), {4, 5, 6, 7, 19, 20, 21, 22, 23, 27}))
        out.append((rpc.record(rpc.call(rng.getrandbits(32), 100000, 4, 0, cred=rb(4), cred_flavor=1, verf=rb(12), verf_flavor=2)), {4, 5, 6, 7, 19, 20, 21, 22, 23, 27}))
    elif pid in (SMB1, SMB2):
        for n in (1, 2, 3, 5, 9):
            if pid == SMB1:
                dl = [b"NT LM 0.12"] + [b"D%d" % i for i in range(n - 1)]
                if n in (2, 5):
                    dl = [b"PC NETWORK PROGRAM 1.0", b"MICROSOFT NETWORKS 3.0", b"LANMAN1.0", b"LM1.2X002", b"Samba"][:n]     # pre-NT dialects only
                m = smb.nbss(smb.smb1_header(0x72, mid=rng.getrandbits(16)) + smb.smb1_negotiate_body(dl))
            else:
                dl = [0x0202, 0x0210, 0x0300, 0x0302, 0x0311, 0x0001, 0x0002, 0x0003, 0x0004][:n]
                m = smb.nbss(smb.smb2_header(0, msgid=rng.getrandbits(64)) + smb.smb2_negotiate_body(dl))
            out.append((m, set()))
    return out


def is_response_of(pid, payload):
    if payload is None:
        return False
    if pid == HTTP:
        return payload.startswith(b"HTTP/1.1 401")
    if pid == SSH:
        return payload == sshghost.SSH_REPLY
    if pid == GHOST:
        return payload.startswith(b"Gh0st")
    if pid == STUN:
        return stun.is_stun_response(payload)
    if pid == RPC_UDP:
        return len(payload) >= 8 and payload[4:8] == b"\0\0\0\1"
    if pid == RPC_TCP:
        return len(payload) >= 12 and payload[0] & 0x80 and payload[8:12] == b"\0\0\0\1"
    if pid == SMB1:
        return smb.is_smb_response(payload) and payload[4:8] == b"\xffSMB"
    if pid == SMB2:
        return smb.is_smb_response(payload) and payload[4:8] == b"\xfeSMB"
    return False


def any_sig_response(payload):
    for pid in (HTTP, SSH, GHOST, STUN, RPC_UDP, RPC_TCP, SMB1, SMB2):
        if is_response_of(pid, payload):
            return pid
    return None


def template_of(full, free):
    return [ANY if i in free else (1 << full[i]) for i in range(len(full))]


def transports(pid):
    # the responder is chosen by the signature that completed, never by the transport: a record-marked call in a datagram is
    # answered record-marked, a bare call on a TCP connection is answered bare
    return ("udp", "tcp")


class Lab:
    """Frame-level experiments on one shard."""

    def __init__(self, ctx, cfg):
        self.ctx, self.cfg = ctx, cfg

    def ask(self, payload, transport, v6=None, sp=None, dp=None):
        rng = self.ctx.rng
        v6 = rng.random() < 0.5 if v6 is None else v6
        e = gen.endp(rng, self.cfg, v6)
        sp = gen.rnd_port(rng) if sp is None else sp
        dp = gen.rnd_port(rng) if dp is None else dp
        if transport == "udp":
            return app_payload(self.ctx.send(e.udp(sp, dp, payload)))
        f = Flow(self.ctx, e, sp, dp)
        if f.syn() is None:
            return None
        return app_payload(f.data(payload))

    def decision(self, segments, v6=None):
        """Deliver segments on a fresh validated flow; return the flow's identification as dumped from the table."""
        rng = self.ctx.rng
        v6 = rng.random() < 0.5 if v6 is None else v6
        e = gen.endp(rng, self.cfg, v6)
        f = Flow.fresh(self.ctx, e)
        ck = f.syn()
        if ck is None:
            return None
        for s in segments:
            f.data(s)
        d = self.ctx.driver().dump()
        ent = d.get(ck)
        return None if ent is None else ent[0]


def exp_pids(names):
    return sorted(set(s[1] for s in SIGS if s[0] in names))


def confirm_edge(lab, nodes, e, rng):
    """-> list of (status, detail, payload, transport); status in confirmed / unobservable / unroutable."""
    out = []
    if e.kind in ("dead", "miss", "wrong"):
        routed = False
        for pid in exp_pids(e.exp):
            for full, free in forms(pid, rng):
                if len(full) <= e.node.pos:
                    continue
                t = template_of(full, free)
                pre = matcher.solve_prefix(nodes, e.node, t, rng, final_mask=None if e.end else e.mask)
                if pre is None:
                    continue
                payload = pre + full[len(pre):]
                for tr in transports(pid):
                    if sigref.identify(payload, tr == "udp") != pid:
                        continue
                    if e.end and tr != "udp":
                        continue
                    routed = True
                    rep = lab.ask(payload, tr)
                    if is_response_of(pid, rep):
                        out.append(("unobservable", "valid %s request still answered by its responder" % sigref.NAMES[pid], payload, tr))
                    else:
                        out.append(("confirmed", "complete valid %s request (reference: leading bytes complete %s) is not answered by the %s responder over %s (got %s)" % (
                            sigref.NAMES[pid], "+".join(e.exp), sigref.NAMES[pid], tr, "nothing" if not rep else rep[:16].hex()), payload, tr))
                if any(o[0] == "confirmed" for o in out):
                    break
        if not routed:
            out.append(("unroutable", "no complete valid request can be routed through this edge", b"", "-"))
        return out
    # false positive: the real matcher reports e.rid although the reference completes nothing
    pid = e.rid
    tried = False
    cands = []
    if e.end:
        # payload ends here; try to make it a DNS query the fallback would answer (sibling differential)
        tmpl = [ANY, ANY, sum(1 << b for b in range(0x80)), ANY, 1, 1, 1, 1, 1, 1, 1, 1]    # QR=0, all counts 0
        for t in (tmpl, []):
            pre = matcher.solve_prefix(nodes, e.node, t, rng, final_mask=None)
            if pre is not None:
                cands.append(pre)
    else:
        for full, free in forms(pid, rng) or [(b"", set())]:
            pre = matcher.solve_prefix(nodes, e.node, [], rng, final_mask=e.mask)
            if pre is not None:
                cands.append(pre + full[len(pre):])
    for payload in cands:
        if sigref.identify(payload, True) != NOMATCH:
            continue
        tried = True
        rep = lab.ask(payload, "udp", v6=False)
        got = any_sig_response(rep)
        if got is not None:
            out.append(("confirmed", "payload completing no signature is answered by the %s responder" % sigref.NAMES[got], payload, "udp"))
            continue
        if rep is None and len(payload) > 12:
            sib = payload[:-1]
            if sigref.identify(sib, True) == NOMATCH:
                rs = lab.ask(sib, "udp", v6=False)
                if rs is not None and dns.looks_like_response_to(rs, struct.unpack("!H", sib[:2])[0]):
                    out.append(("confirmed", "payload completing no signature is dispatched to %s and thereby withheld from the DNS fallback "
                                "(its one-byte-shorter sibling is answered by DNS)" % sigref.NAMES.get(pid, pid), payload, "udp"))
                    continue
        out.append(("unobservable", "no observable consequence", payload, "udp"))
    if not tried:
        out.append(("unroutable", "no payload completing no signature can be routed through this edge", b"", "-"))
    return out


def known_groups():
    gs = {}
    for ent in findings.known(PROP):
        gs[ent["key"]] = ent.get("edges", {})
    return gs


def classify(key, mask, groups):
    """-> group key if the edge is covered by a listed known edge (class-wise containment) else None"""
    for g, edges in groups.items():
        if key in edges and mask & ~int(edges[key], 16) == 0:
            return g
    return None


def shard(ctx, budget_s, learn):
    rng = ctx.rng
    ctx.universal = True
    cfg = gen.rnd_config(rng, selfips=False, deny=False, logger="n", level=0)
    ctx.case(cfg)
    t0 = time.time()
    nodes, edges, steps = matcher.explore(ctx.driver())
    ctx.extra["explore_s"] = round(time.time() - t0, 2) if ctx.shard == 0 else 0
    if ctx.shard == 0:
        ctx.evaluations += steps
        ctx.extra["states"] = len(nodes)
        ctx.extra["transitions"] = steps
        ctx.extra["divergence_edges"] = len(edges)
    groups = known_groups()
    lab = Lab(ctx, cfg)
    # ---- divergence edges (partitioned over the shards) ------------------------------------------------------------
    learned = {}
    for k, e in enumerate(edges):
        key = matcher.edge_key(nodes, e)
        if learn and ctx.shard == 0:
            learned[key] = "%x" % (int(learned.get(key, "0"), 16) | e.mask)
        if k % ctx.nshards != ctx.shard:
            continue
        grp = classify(key, e.mask, groups)
        res = confirm_edge(lab, nodes, e, rng)
        for status, detail, payload, tr in res:
            ctx.stats["edge_%s_%s" % (e.kind, status)] += 1
            ctx.nontrivial("edge", key, tr, status)
            if status == "confirmed":
                ctx.violation(grp or ("matcher:uncovered:" + key), "%s [edge %s bytes %s]" % (detail, key, "END" if e.end else matcher.mask_ranges(e.mask)),
                              observed=payload.hex(), expected="decision by the reference signature set", extra={"transport": tr, "edge": key})
        if not any(s == "confirmed" for s, _d, _p, _t in res) and grp is None:
            ctx.stats["uncovered_unconfirmed_edges"] += 1
            ctx.extra.setdefault("unconfirmed_uncovered_edges", []).append(key)
    if learn and ctx.shard == 0:
        ctx.extra["learned_edges"] = learned
    # ---- agreeing completion edges: one witness per (state, protocol form) must be answered by the right responder ------
    agree = []
    for n in nodes:
        if n.ralive and n.rmatch:
            agree.append(n)
    wits = []
    for k, n in enumerate(agree):
        if k % ctx.nshards != ctx.shard:
            continue
        # which signatures complete at this node (reference)?
        comp = {}
        for b in range(256):
            _na, done = sigref.step(n.alive, n.pos, b)
            if done:
                comp.setdefault(SIGS[done[0]][1], 0)
                comp[SIGS[done[0]][1]] |= 1 << b
        for i in sigref.end(n.alive, n.pos):
            comp.setdefault(("END", SIGS[i][1]), 0)
        for pidk, mask in comp.items():
            end = isinstance(pidk, tuple)
            pid = pidk[1] if end else pidk
            fs = forms(pid, rng)
            rng.shuffle(fs)         # every form gets its turn as the witness of some node
            for full, free in fs:
                if len(full) < n.pos + (0 if end else 1):
                    continue
                t = template_of(full, free)
                pre = matcher.solve_prefix(nodes, n, t, rng, final_mask=None if end else mask)
                if pre is None:
                    continue
                payload = pre + full[len(pre):]
                if end and len(payload) != n.pos:
                    continue
                for tr in transports(pid):
                    if end and tr != "udp":
                        continue
                    if sigref.identify(payload, tr == "udp") != pid:
                        continue
                    real = sigref.RealMatcher(ctx).identify(payload, tr == "udp")
                    if real != pid:
                        continue        # belongs to a divergence edge handled above
                    rep = lab.ask(payload, tr)
                    ctx.stats["witness_%s_%s" % (sigref.NAMES[pid], tr)] += 1
                    ctx.nontrivial("witness", n.idx, pid, tr, len(full))
                    if not is_response_of(pid, rep):
                        ctx.violation("witness_not_answered:%s:%s" % (sigref.NAMES[pid], tr),
                                      "complete valid %s request identified by both matchers is not answered by its responder over %s (got %s)" % (
                                          sigref.NAMES[pid], tr, "nothing" if not rep else rep[:16].hex()), observed=payload.hex(), expected=sigref.NAMES[pid])
                    if tr == "tcp":
                        wits.append((pid, payload))
                break
    # ---- payloads completing no signature must not be answered by a signature-dispatched responder ------------------------
    for _ in range(300 if ctx.tier == "quick" else 5000):
        n = rng.choice(nodes)
        p = n.path + bytes(rng.getrandbits(8) for _x in range(rng.randrange(0, 40)))
        if sigref.identify(p, True) != NOMATCH:
            continue
        rep = lab.ask(p, "udp")
        ctx.stats["nosig_udp"] += 1
        got = any_sig_response(rep)
        if got is not None and sigref.RealMatcher(ctx).identify(p, True) == NOMATCH:
            ctx.violation("nosig_answered", "payload completing no signature answered by the %s responder" % sigref.NAMES[got], observed=p.hex())
    # ---- a stream whose leading bytes complete no signature stays unanswered, whatever follows and however it is cut ----------
    reqs = [(pid, full) for pid in (HTTP, SSH, GHOST, STUN, RPC_TCP, SMB1, SMB2) for full, _free in forms(pid, rng)[:3]]
    for _ in range(60 if ctx.tier == "quick" else 1500):
        pid, req = rng.choice(reqs)
        n = rng.choice([1, 2, 5, 27, 28, 29, 30, 40, 64, rng.randrange(1, 200)])
        pre = rng.choice([bytes(rng.getrandbits(8) for _x in range(n)), (b"PROPFIND / HTTP/1.1\r\nDepth: 0\r\n" * 8)[:n], b"\0" * n, rng.choice(nodes).path + bytes(n)])
        stream = pre + req
        if sigref.identify(stream, False) != NOMATCH or sigref.undecided(pre) or sigref.RealMatcher(ctx).identify(stream, False) != NOMATCH:
            continue
        cuts = sorted(set([len(pre)] + [rng.randrange(1, len(pre) + 1) for _x in range(rng.choice([0, 0, 1, 2]))]))
        cuts = [c for c in cuts if 0 < c < len(stream)]
        e = gen.endp(rng, cfg, rng.random() < 0.5)
        f = Flow.fresh(ctx, e)
        if f.syn() is None:
            continue
        ctx.stats["nosig_tcp_streams"] += 1
        ctx.nontrivial("nosig_tcp", len(pre), pid, tuple(cuts))
        for seg in cut(stream, cuts):
            rep = app_payload(f.data(seg))
            if rep:
                ctx.violation("nosig_stream_answered:%s" % sigref.NAMES[pid],
                              "TCP stream whose leading bytes complete no signature (%d foreign bytes, then a %s request, cuts %s) was answered with %s" % (
                                  len(pre), sigref.NAMES[pid], cuts, rep[:16].hex()), observed=rep.hex()[:200], expected="bare ACKs only",
                              extra={"stream": stream.hex()[:600], "cuts": cuts})
                break
    # ---- the decision does not depend on ports or addresses: corner port pairs x both IP versions, every protocol and transport ----
    real = sigref.RealMatcher(ctx)
    for pid in (HTTP, SSH, GHOST, STUN, RPC_TCP, RPC_UDP, SMB1, SMB2):
        fs = forms(pid, rng)
        rng.shuffle(fs)
        for tr in transports(pid):
            wits_ = [full for full, _free in fs if sigref.identify(full, tr == "udp") == pid and real.identify(full, tr == "udp") == pid]
            if not wits_:
                continue
            x = rng.randrange(1024, 65535)
            for sp, dp in ((0, x), (x, 0), (0, 0), (65535, 65535), (1, 1), (x, x), (x, 65535), (65535, x)):
                for v6 in (False, True):
                    wit = rng.choice(wits_)          # every form takes its turn
                    rep = lab.ask(wit, tr, v6=v6, sp=sp, dp=dp)
                    ctx.stats["endpoint_witnesses"] += 1
                    ctx.nontrivial("endpoint", pid, tr, sp == 0, dp == 0, sp == dp, v6)
                    if not is_response_of(pid, rep):
                        ctx.violation("witness_not_answered:%s:%s:ports" % (sigref.NAMES[pid], tr),
                                      "complete valid %s request is not answered by its responder over %s/IPv%d from port %d to port %d (got %s)" % (
                                          sigref.NAMES[pid], tr, 6 if v6 else 4, sp, dp, "nothing" if not rep else rep[:16].hex()), observed=wit.hex(), expected=sigref.NAMES[pid])
    # ---- segmentation / address independence of the decision ----------------------------------------------------------------
    deadline = time.time() + budget_s
    def more_witnesses():
        out = []
        for pid in (HTTP, SSH, GHOST, STUN, RPC_TCP, SMB1, SMB2):
            for full, free in forms(pid, rng):
                p = bytes(rng.getrandbits(8) if i in free else full[i] for i in range(len(full)))
                if sigref.identify(p, False) == pid and real.identify(p, False) == pid:
                    out.append((pid, p))
        rng.shuffle(out)
        return out
    pool = list(wits) + more_witnesses()
    rounds = 0
    while pool:
        pid, payload = pool.pop()
        if not pool and ctx.tier == "thorough" and time.time() < deadline:
            pool = more_witnesses()          # thorough: keep instantiating the free positions until the budget is used
            rounds += 1
        if time.time() > deadline:
            break
        ref = lab.decision([payload], v6=False)
        dp = sigref.decision_point(payload) or len(payload)
        plans = [[c] for c in range(1, min(len(payload), dp + 2))]
        plans += [sorted(rng.sample(range(1, len(payload)), min(len(payload) - 1, rng.randrange(2, 5)))) for _ in range(4)]
        plans.append(list(range(1, min(len(payload), dp + 3))))     # byte-wise through the signature
        for cuts in plans:
            got = lab.decision(cut(payload, cuts))
            ctx.stats["segmentations"] += 1
            ctx.nontrivial("seg", payload[:dp], tuple(cuts))
            if got != ref:
                ctx.violation("segmentation_changes_decision:%s" % sigref.NAMES[pid],
                              "identification of the same stream differs: unsegmented -> %s, cuts %s -> %s" % (ref, cuts, got),
                              observed=got, expected=ref, extra={"payload": payload.hex(), "cuts": cuts})
                break
        ctx.stats["segmentation_witnesses"] += 1
    # ---- ... and of how many other connections the responder is holding ---------------------------------------------------------
    if ctx.shard == 1 % ctx.nshards:
        from ..applab import AppLab
        sess = []
        for pid, payload in (list(wits) + more_witnesses())[:40]:
            dpt = sigref.decision_point(payload) or len(payload)
            if len(payload) < 3 or len(sess) >= 16:
                continue
            c = rng.randrange(1, max(2, min(len(payload) - 1, dpt)))
            sess.append((sigref.NAMES[pid], [payload[:c], payload[c:]]))
        for name, segs, alone, crowd in AppLab(ctx, cfg).crowded_sessions(sess):
            ctx.stats["crowded_split_signatures"] += 1
            ctx.nontrivial("crowded", name, len(segs[0]))
            if alone != crowd:
                ctx.violation("crowd_changes_decision:%s" % name, "a %s request whose signature is split after %d bytes is answered differently when 66 000 other connections are validated "
                              "before it and 66 000 more between its two segments: idle %r, crowded %r" % (name, len(segs[0]), [x and x[:16] for x in alone], [x and x[:16] for x in crowd]),
                              observed=repr(crowd)[:300], expected=repr(alone)[:300], frames=[], note="the replay file holds the session's own frames; the 2 x 66 000 crowd connections are generated by the check (re-run it to reproduce)", extra={"segments": [s.hex()[:400] for s in segs]})
    if ctx.shard == 0:
        ctx.sample({"divergence_edge_example": matcher.edge_key(nodes, edges[0]) if edges else None,
                    "witness_example": wits[0][1].hex() if wits else None})


def run(tier, seed):
    learn = os.environ.get("VERIF_LEARN") == "1"
    v = core.Verdict(PROP, tier, seed)
    res = core.run_shards(shard, PROP, tier, seed, budget_s=20 if tier == "quick" else 200, learn=learn)
    v.merge(res)
    if learn:
        for r in res:
            le = r.get("extra", {}).get("learned_edges")
            if le:
                print("LEARNED-EDGES " + json.dumps(le, sort_keys=True))
    v.extra.pop("learned_edges", None)
    states, trans = v.extra.get("states", 0), v.extra.get("transitions", 0)
    return v.finish(RULE, floor=100, assumptions=ASSUME, exhaustive=True,
                    explanation="exhaustive: true refers to the matcher-level sub-space only (%d product states x (256 bytes + end-of-input) = %d real "
                                "matcher steps); the frame-level and segmentation parts are witnesses derived from it" % (states, trans),
                    more={"states": states, "transitions": trans})
