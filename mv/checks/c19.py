"""C19 - any port, either IP version: answers do not depend on where they were asked.

Metamorphic: the canonical application reply to a payload must be the same for all port pairs and both IP versions (per
transport); `canon` blanks exactly the fields that by specification carry an endpoint address or wall-clock time."""
import struct
import time

from .. import core, gen, pkt, canon as canon_mod
from ..flow import cut
from ..pkt import SYN, ACK, PSH
from ..protos import http, dns, stun, rpc, smb

PROP = "C19"
PORTS = [0, 1, 22, 53, 80, 111, 445, 3478, 65535, 443, 8443, 8080, 25, 23, 1023, 1024, 3389]
RULE = ("corpus = valid requests of every application protocol/form, byte-mutated variants, DNS-query/STUN polyglots and near-requests the responders refuse (other DNS types and classes, "
        "reply-typed messages, RPC programs / versions out of range, single-fault HTTP / SSH requests, other SMB commands); two UDP "
        "placements per payload use the source port that makes the request's UDP checksum the 0xFFFF encoding, a quarter of the placements carries "
        "an Ethernet trailer after the IP datagram, and TCP placements include port pairs whose SYN cookie is exactly 0 / 0xFFFFFFFF; each payload is sent to 12 "
        "(sport, dport) pairs drawn from {0, 1, 22, 53, 80, 111, 445, 3478, 65535, random} x {IPv4, IPv6} over UDP and over "
        "cookie-validated TCP flows (one segment); whether it is answered and the canonical reply must be identical across all 24 "
        "placements of one transport; ten payloads per round are then sent by one client that keeps ONE source port for all its connections (scanner style: other destination ports, other addresses of the responder, one table) and must be answered as anywhere else. Canonical form: parsed by the independent codecs; STUN MAPPED-ADDRESS removed (length "
        "adjusted), portmapper port / universal address / netid blanked, DNS answer RDLENGTH+RDATA blanked, HTTP Date value and "
        "SMB time fields blanked. Non-trivial = payloads answered in at least one placement; distinct = distinct payloads x "
        "transport.")
ASSUME = ["TCP placements deliver the payload in one segment (segmentation is C11's subject)",
          "fields masked are exactly those the statement lists; everything else in the reply is compared byte for byte"]


UNPARSEABLE = ("unparseable",)


def canon_app(req, rep):
    if rep is None or rep == b"":
        return None
    if stun.is_stun_response(rep):
        return ("stun", stun.mask(rep))
    if http.is_http_response(rep) or smb.is_smb_response(rep):
        return ("app", canon_mod.mask_app(rep))
    # ONC-RPC reply in datagram or record-marked form, correlated with the request by its xid
    for tcpfmt in (False, True):
        o = 4 if tcpfmt else 0
        if len(rep) >= o + 8 and len(req) >= o + 4 and rep[o:o + 4] == req[o:o + 4] and rep[o + 4:o + 8] == b"\0\0\0\1":
            c = rpc.parse_call(req, tcpfmt)
            if c is not None:
                return rpc.canon(rep, tcpfmt, c)
    if len(rep) >= 12 and rep[:2] == req[:2] and rep[2] & 0x80:
        m = dns.mask(rep)
        return ("dns", m) if m is not None else UNPARSEABLE
    return ("raw", rep)


def polyglots(rng):
    """Payloads that are at the same time a well-formed DNS IN/A query and complete a signature (RFC 3489 STUN forms):
    which responder answers them must not depend on the port either."""
    out = []
    for _ in range(3):
        name = dns.name([bytes(rng.choice(b"abcdefgh") for _x in range(rng.choice([1, 2])))])
        q = name + b"\x00\x01\x00\x01"
        # 20-byte form: id 0x0001, flags 0x0000 (= STUN length 0), one question
        m = b"\x00\x01\x00\x00" + struct.pack("!HHHH", 1, 0, 0, 0) + q
        m = (m + bytes(20))[:20]
        out.append(("polyglot_stun20", m, m))
        # 28-byte CHANGE-REQUEST form: flags 0x0008
        m = b"\x00\x01\x00\x08" + struct.pack("!HHHH", 1, 0, 0, 0) + q
        m = (m + bytes(20))[:20] + b"\x00\x03\x00\x04\x00\x00\x00" + bytes([rng.choice([0, 2, 4, 6])])
        out.append(("polyglot_stun28", m, m))
    return out


def sport_for_checksum_ffff(e, dp, payload):
    """Source port for which the UDP checksum of the request computes to 0 (transmitted as 0xFFFF)."""
    base = pkt.udp(e.cip, e.sip, 0, dp, payload, cs=0)
    s0 = pkt.csum_fold(pkt.csum_sum(pkt.pseudo(e.cip, e.sip, 17, len(base)) + base))     # sum with sport = 0
    sp = (0xFFFF - s0) % 0xFFFF
    return sp if sp else 0xFFFF


def placements(rng):
    pl = []
    for v6 in (False, True):
        pairs = [(rng.choice(PORTS), rng.choice(PORTS)) for _ in range(6)] + [(gen.rnd_port(rng), rng.choice(PORTS)) for _ in range(3)] + \
                [(rng.choice(PORTS), gen.rnd_port(rng)) for _ in range(3)]
        pl += [(v6, sp, dp) for sp, dp in pairs]
    return pl


def compare(ctx, name, payload, tr, results):
    base = results[0]
    if any(r[1] == UNPARSEABLE for r in results):
        ctx.stats["skipped_reply_not_parseable_by_codec"] += 1
        return
    answered = any(r[1] is not None for r in results)
    if answered:
        ctx.nontrivial(payload, tr)
    for (pl, c) in results[1:]:
        if c != base[1]:
            ctx.violation("placement_dependent:%s:%s" % (name.split("_")[0], tr),
                          "the same payload is answered differently depending on where it is sent: %s -> %s but %s -> %s" % (
                              base[0], canon_mod.describe(base[1]), pl, canon_mod.describe(c)),
                          observed=canon_mod.describe(c), expected=canon_mod.describe(base[1]), extra={"payload": payload.hex()[:600], "transport": tr})
            return


def boundary_placements(ctx):
    """Port pairs whose SYN cookie is 0 / 0xFFFFFFFF (witnesses.json, re-validated by probing) next to ordinary ones:
    the same HTTP request must be answered identically on all of them."""
    import json
    import os
    from .. import build
    from ..driver import Config
    try:
        ws = json.load(open(os.path.join(build.VERIF, "witnesses.json")))["boundary_cookies"]
    except Exception:
        return
    req = b"GET / HTTP/1.1\r\nHost: placement\r\n\r\n"
    for w in ws:
        cfg = Config(pkt.mac("c0:ff:ee:c0:ff:ee"), None, None, (int(w["key"][0], 16), int(w["key"][1], 16)), "n", 0)
        ctx.case(cfg, reset=True)
        e = pkt.Endp(pkt.mac("02:00:00:00:00:77"), cfg.mac, pkt.ip(w["src"]), pkt.ip(w["dst"]))
        res = []
        for sp, dp in ((w["sport"], w["dport"]), (w["sport"] ^ 1, w["dport"]), (40000, 8080)):
            r = ctx.send(e.tcp(sp, dp, 100, 0, SYN))
            a = pkt.parse(r.reply) if r.kind == "R" else {}
            if a.get("flags") != (SYN | ACK):
                continue
            if (sp, dp) == (w["sport"], w["dport"]) and a["seq"] != int(w["cookie"], 16):
                ctx.stats["boundary_witness_stale"] += 1
            r = ctx.send(e.tcp(sp, dp, 101, (a["seq"] + 1) & 0xFFFFFFFF, PSH | ACK, req))
            b = pkt.parse(r.reply) if r.kind == "R" else {}
            res.append((("v4", sp, dp, "cookie %08x" % a["seq"]), canon_app(req, b.get("data"))))
        if len(res) >= 2:
            compare(ctx, "http_boundary", req, "tcp", res)
            ctx.stats["boundary_placements"] += 1


def scanner(ctx, cfg, known):
    """One client, ONE source port, many services: the way scanners work (masscan keeps its source port).  The payloads of
    `known` (payload, canonical answer on an ordinary placement) are sent from the same client address and source port to
    different destination ports - and, from that port pair, to different addresses of the responder - one connection
    after the other in one connection table.  Each must be answered as it is anywhere else."""
    rng = ctx.rng
    for v6 in (False, True):
        ctx.case(reset=True, record=True)       # (the connections of one scanner round are the replay of a violation)
        e = gen.endp(rng, cfg, v6)
        sp = gen.rnd_port(rng)
        used = set()
        for t, base in known:
            dp = rng.choice(PORTS) if rng.random() < 0.5 else gen.rnd_port(rng)
            e2 = e
            if (e.sip, dp) in used:
                if cfg.selfips:
                    continue
                o = gen.endp(rng, cfg, v6)          # same port pair, another address of the responder
                e2 = pkt.Endp(e.cmac, e.smac, e.cip, o.sip)
                if (e2.sip, dp) in used:
                    continue                        # (every connection of the round is a tuple of its own)
            used.add((e2.sip, dp))
            isn = rng.getrandbits(32)
            r = ctx.send(e2.tcp(sp, dp, isn, 0, SYN))
            a = pkt.parse(r.reply) if r.kind == "R" else {}
            if a.get("flags") != (SYN | ACK):
                ctx.inconclusive += 1
                continue
            r = ctx.send(e2.tcp(sp, dp, isn + 1, a["seq"] + 1, PSH | ACK, t))
            b = pkt.parse(r.reply) if r.kind == "R" else {}
            c = canon_app(t, b.get("data"))
            ctx.stats["scanner_placements"] += 1
            if c == UNPARSEABLE:
                continue
            if c != base:
                ctx.violation("placement_dependent:scanner:tcp", "a payload sent by a client that keeps one source port for all its connections (port %d, "
                              "connection #%d, to port %d over IPv%d) is answered differently from the same payload elsewhere: %s but %s" % (
                                  sp, len(used), dp, 6 if v6 else 4, canon_mod.describe(c), canon_mod.describe(base)),
                              observed=canon_mod.describe(c), expected=canon_mod.describe(base), extra={"payload": t.hex()[:600], "transport": "tcp"})
                return


def shard(ctx, budget_s):
    rng = ctx.rng
    deadline = time.time() + budget_s
    n = 0
    if ctx.shard == 2 % ctx.nshards:
        boundary_placements(ctx)
    while time.time() < deadline or n == 0:
        cfg = gen.rnd_config(rng, selfips=rng.random() < 0.3, deny=False, logger=rng.choice("nnnncl"), level=rng.choice([0, 0, 2, 3, 4, 5]))
        ctx.case(cfg, record=False)
        corpus = []
        known = []
        for name, u, t in gen.app_requests(rng):
            corpus.append((name, u, t))
            if rng.random() < 0.5:
                m = gen.mutate(rng, u)
                corpus.append((name + "_mut", m, m))
        corpus += polyglots(rng)
        # queries with many questions: the replies are 0.3 - 2 KB long and 4 bytes per answer longer over IPv4 than over
        # IPv6, so every size limit a responder might apply (512, 1232, 1452, ...) separates some placement from another
        for _ in range(2):
            nq = rng.choice([8, 10, 12, 16, 24, 40, 73, 91])
            qs = [dns.question([bytes(rng.choice(b"abcdefghijklmnopqrstuvwxyz") for _x in range(rng.randrange(1, 12))), b"example", b"com"][rng.randrange(3):]) for _q in range(nq)]
            m = dns.header(rng.getrandbits(16), 0x0100, nq) + b"".join(qs)
            corpus.append(("dns_many", m, m))
        corpus += rng.sample(gen.near_requests(rng), 8)
        for name, u, t in corpus:
            pls = placements(rng)
            ends = [gen.endp(rng, cfg, v6) for v6, _s, _d in pls]
            # two placements whose (valid) UDP checksum is the special encoding 0xFFFF of a computed zero
            for k in (0, len(pls) - 1):
                v6, _sp, dp = pls[k]
                pls[k] = (v6, sport_for_checksum_ffff(ends[k], dp, u), dp)
            # --- UDP
            # some placements carry bytes after the IP datagram (Ethernet padding / trailer): not part of the payload
            trailer = [bytes(rng.getrandbits(8) for _x in range(rng.choice([1, 4, 18]))) if rng.random() < 0.25 else b"" for _p in pls]
            rs = ctx.send_many([e.udp(sp, dp, u) + t_ for e, (v6, sp, dp), t_ in zip(ends, pls, trailer)])
            res = []
            for (v6, sp, dp), r in zip(pls, rs):
                a = pkt.parse(r.reply) if r.kind == "R" else {}
                res.append((("v6" if v6 else "v4", sp, dp), canon_app(u, a.get("data"))))
            compare(ctx, name, u, "udp", res)
            ctx.stats["udp_payloads"] += 1
            # --- TCP
            ctx.reset_table()
            isns = [rng.getrandbits(32) for _ in pls]
            rs = ctx.send_many([e.tcp(sp, dp, isn, 0, SYN) for e, (v6, sp, dp), isn in zip(ends, pls, isns)])
            frames, keep = [], []
            for e, (v6, sp, dp), isn, r in zip(ends, pls, isns, rs):
                a = pkt.parse(r.reply) if r.kind == "R" else {}
                if a.get("flags") != (SYN | ACK):
                    ctx.inconclusive += 1
                    continue
                frames.append(e.tcp(sp, dp, isn + 1, a["seq"] + 1, PSH | ACK, t) + (bytes(4) if rng.random() < 0.2 else b""))
                keep.append((v6, sp, dp))
            rs = ctx.send_many(frames)
            res = []
            for (v6, sp, dp), r in zip(keep, rs):
                a = pkt.parse(r.reply) if r.kind == "R" else {}
                res.append((("v6" if v6 else "v4", sp, dp), canon_app(t, a.get("data"))))
            if res:
                compare(ctx, name, t, "tcp", res)
                if res[0][1] != UNPARSEABLE and all(c == res[0][1] for _p, c in res):
                    known.append((t, res[0][1]))
            ctx.stats["tcp_payloads"] += 1
        rng.shuffle(known)
        scanner(ctx, cfg, known[:10])
        if ctx.shard == 0 and len(ctx.samples) < 2:
            ctx.sample({"payload": corpus[0][1].hex()[:120], "placements": [list(p) for p in placements(rng)[:4]]})
        n += 1


def run(tier, seed):
    v = core.Verdict(PROP, tier, seed)
    v.merge(core.run_shards(shard, PROP, tier, seed, budget_s=20 if tier == "quick" else 240))
    return v.finish(RULE, floor=100, assumptions=ASSUME)
