"""C11 - stream parsing is independent of TCP segmentation (HTTP, ONC-RPC over TCP).

Reference = unsegmented delivery on a fresh flow.  For every segmentation: nothing but bare ACKs before the segment that
contains the trigger byte (grammar model), exactly that segment carries the (canonically equal) reply; an unanswered
stream stays unanswered under every cut."""
import itertools
import struct
import time

from .. import core, gen, pkt, canon
from ..flow import cut
from ..pkt import SYN, ACK, PSH
from ..protos import http, rpc

PROP = "C11"
RULE = ("request streams from the HTTP grammar (all verb families, targets, 0-3 headers, CRLF/LF) and ONC-RPC calls over TCP "
        "(record mark, credentials/verifiers of 0..40 bytes, optional arguments; also bodies whose lengths are not multiples of 4, with the trigger calibrated from the byte-wise run), single-fault negatives and foreign-preface negatives; for each stream ALL "
        "one-cut and ALL two-cut compositions, random k-cuts (k <= 8) and byte-wise delivery, each on a fresh flow, the sessions of a stream accumulating in one connection table (thousands of control blocks) and interleaved round-robin within batches of 150 (new client address and port; the contacted endpoint is fixed per stream because portmapper replies advertise it). Per segment the reply is compared with the model: bare ACK (flags = ACK, no "
        "payload, seq = peer ack, ack = peer seq + len) before the trigger byte (12 % of the sessions carry bare client ACKs before and between their data segments; logger / verbosity at random), the canonical reply of the unsegmented run in "
        "the segment containing the trigger byte. The trigger byte comes from the grammar (HTTP: LF of the empty line; RPC: last "
        "verifier byte) and is cross-checked against the byte-wise run. Non-trivial = segmentations with a cut strictly before "
        "the trigger byte; distinct = distinct (stream, cut positions).")
ASSUME = ["replies to segments after the one that completed the request are not constrained",
          "streams longer than about 120 bytes are only explored with sampled cuts; requests of 1.4-3.5 KB (one jumbo frame unsegmented) with MSS-sized and sampled cuts, without the byte-wise run"]


def gen_streams(rng, n_http, n_rpc, maxlen):
    out = []
    verbs = list(http.VERBS)
    rng.shuffle(verbs)
    i = 0
    while len([s for s in out if s[0] == "http"]) < n_http:
        p = http.gen_parts(rng, verb=verbs[i % 9], max_target=12, max_headers=2)
        i += 1
        s = http.build(p)
        if len(s) <= maxlen:
            out.append(("http", s, len(s) - 1, True, p))
    procs = [(0, 2), (3, 2), (3, 4), (4, 3), (7, 3), (3, 9), (4, 2), (0, 4)]
    j = 0
    while len([s for s in out if s[0] == "rpc"]) < n_rpc:
        proc, vers = procs[j % len(procs)]
        j += 1
        c = rpc.gen_call(rng, prog=rpc.PMAP if rng.random() < 0.8 else 100003, vers=vers, proc=proc, maxauth=rng.choice([0, 8, 40]))
        # xids the compiled matcher does not identify belong to C10: choose an identified first byte
        m = bytearray(c["msg"])
        m[0] = rng.choice([0x01, 0x7A, 0x99, 0xFE])
        s = rpc.record(bytes(m))
        if len(s) <= maxlen:
            out.append(("rpc", s, 4 + c["trigger"], True, None))
    # calls whose credential / verifier lengths are NOT multiples of 4 (how such a call is framed is the responder's
    # business, but it has to be framed the same way under every segmentation): the trigger byte is calibrated from the
    # byte-wise run instead of the grammar
    for _ in range(max(1, n_rpc // 2)):
        cl, vl = rng.choice([(1, 0), (6, 0), (0, 3), (5, 7), (10, 2), (2, 0)])
        m = struct.pack("!IIIIII", (rng.choice([0x01, 0x7A]) << 24) | rng.getrandbits(24), 0, 2, rpc.PMAP, rng.choice([2, 3, 4]), rng.choice([0, 3, 4])) + \
            struct.pack("!II", 1, cl) + bytes(rng.getrandbits(8) for _x in range(cl)) + struct.pack("!II", rng.choice([0, 1]), vl) + \
            bytes(rng.getrandbits(8) for _x in range(vl)) + bytes(rng.choice([0, 4, 8]))
        out.append(("rpc_odd", rpc.record(m), None, True, None))
    # requests followed by a body (in the same segment or not): the reply is due at the blank line, under every cut
    for _ in range(2):
        p = http.gen_parts(rng, verb=rng.choice(["POST", "PUT", "PATCH"]), max_target=12, max_headers=1)
        body = bytes(rng.choice(b"abcdef=&0123456789") for _x in range(rng.randrange(1, 30)))
        p["headers"].append((b"Content-Length", b" %d" % len(body)))
        p["eols"].insert(1, p["eols"][0])
        head = http.build(p)
        if len(head) + len(body) <= maxlen + 40:
            out.append(("http", head + body, len(head) - 1, True, None))
    # record marks that misstate the length of the call (shorter, longer, zero): how such a stream is treated is the
    # responder's business - but it is the same business under every segmentation (trigger calibrated from the byte-wise run)
    for _ in range(2):
        c = rpc.gen_call(rng, prog=rpc.PMAP, vers=rng.choice([2, 3, 4]), proc=rng.choice([0, 3, 4]), maxauth=8)
        m = bytes([rng.choice([0x01, 0x7A, 0x99, 0xFE])]) + c["msg"][1:]
        L = rng.choice([0, 0, 4, 16, len(m) - 4, len(m) - 1, len(m) + 4, len(m) + 400, 0x7FFFFFFF])
        out.append(("rpc_odd", struct.pack("!I", 0x80000000 | (L & 0x7FFFFFFF)) + m, None, True, None))
    # requests that do not fit one 1500-byte frame (long cookie / target; an RPC call followed by kilobytes of
    # arguments): unsegmented they arrive in one jumbo / coalesced frame, segmented in MSS-sized pieces
    for _ in range(2):
        p = http.gen_parts(rng, max_target=12, max_headers=2)
        filler = bytes(rng.choice(http.TOKEN + b"=; ") for _x in range(rng.randrange(1400, 3500)))
        if rng.random() < 0.5:
            p["headers"].insert(rng.randrange(len(p["headers"]) + 1), (b"Cookie", b" " + filler))
        else:
            p["target"] = b"/" + filler.replace(b" ", b"+")
        s = http.build(p)
        out.append(("http", s, len(s) - 1, True, None))
    c = rpc.gen_call(rng, prog=rpc.PMAP, vers=2, proc=rng.choice([0, 3]), maxauth=8)
    m = bytearray(c["msg"])
    m[0] = rng.choice([0x01, 0x7A, 0x99, 0xFE])
    out.append(("rpc", rpc.record(bytes(m) + bytes(rng.getrandbits(8) for _x in range(4 * rng.randrange(350, 800)))), 4 + c["trigger"], True, None))
    return out


def negatives(rng, streams):
    out = []
    for kind, s, t, ans, p in streams:
        if kind == "http" and p is not None:
            for f in rng.sample(["header_no_colon", "nondigit_minor", "no_final_empty_line", "misspelt_http", "folded_header", "folded_header"], 2):
                out.append(("http_neg", http.fault(rng, p, f), None, False, None))
            # a foreign preface followed by a valid request: unanswered in one piece, so unanswered under every cut
            # (in particular the cut that falls exactly at the start of the request)
            pre = rng.choice([b"PROXY TCP4 192.0.2.1 192.0.2.2 1 80\r\n", bytes(rng.randrange(1, 256) | 0x80 for _ in range(rng.randrange(9, 40))), b"\r\n\r\n   \r\n"])
            out.insert(0, ("http_neg", pre + s, None, False, None))
        if kind == "rpc":
            pre = bytes(rng.randrange(1, 256) | 0x80 for _ in range(rng.randrange(9, 40)))
            out.insert(0, ("http_neg", pre + s, None, False, None))
    return out


def plans_for(rng, n, tier, full):
    """Cut position lists for a stream of n bytes."""
    plans = [[]]
    if full:
        plans += [[a] for a in range(1, n)]
        plans += [[a, b] for a in range(1, n) for b in range(a + 1, n)]
    else:
        plans += [[a] for a in range(1, n)]
        plans += [sorted(rng.sample(range(1, n), 2)) for _ in range(300)]
    for _ in range(50 if tier == "quick" else 200):
        k = rng.randrange(3, 9)
        if n - 1 >= k:
            plans.append(sorted(rng.sample(range(1, n), k)))
    plans.append(list(range(1, n)))     # byte-wise
    return plans


def plans_long(rng, n, trig):
    """Cut lists for a stream too long for systematic exploration: unsegmented, MSS-sized pieces, sampled 1-/2-/k-cuts
    (half of them before the trigger byte)."""
    plans = [[]]
    for mss in (1460, 1440, 1448, 536, 1220, 512):
        plans.append(list(range(mss, n, mss)))
    hi = min(n, (trig or n) + 1)
    for _ in range(60):
        k = rng.choice([1, 1, 2, 2, 3, 5])
        top = hi if rng.random() < 0.6 else n
        if top - 1 >= k:
            plans.append(sorted(rng.sample(range(1, top), k)))
    return plans


class Fr(bytes):
    """A data-segment frame that remembers the bare ACK frames sent on its flow just before it."""
    pre = ()


def with_pre(xs):
    return [y for x in xs for y in (list(getattr(x, "pre", ())) + [x])]


def run_sessions(ctx, cfg, stream, plans):
    """Deliver `stream` once per plan, each on a fresh flow.  Returns per plan the list of (segment, reply-or-None)."""
    rng = ctx.rng
    out = []
    B = 150
    # the contacted endpoint is part of some replies (portmapper): keep it fixed per stream, vary the client side
    e0 = gen.endp(rng, cfg, rng.random() < 0.5)
    dp = gen.rnd_port(rng)
    used = set()
    for base in range(0, len(plans), B):
        chunk = plans[base:base + B]
        flows = []
        syns = []
        for cuts in chunk:
            while True:
                e1 = gen.endp(rng, cfg, e0.v6)
                e = pkt.Endp(e1.cmac, e0.smac, e1.cip, e0.sip)
                sp = rng.randrange(1, 65536)
                if (e.cip, sp) not in used:       # every session is a flow of its own (the table is not reset in between)
                    used.add((e.cip, sp))
                    break
            # some sessions start so close to 2^32 that the client's sequence numbers wrap inside the request
            isn = rng.getrandbits(32) if rng.random() < 0.85 else (0xFFFFFFFF - rng.randrange(0, max(2, len(stream) + 2))) & 0xFFFFFFFF
            flows.append((e, sp, dp, isn))
            syns.append(e.tcp(sp, dp, isn, 0, SYN))
        # the table is reset once per stream only: the sessions of a stream pile up (thousands of control blocks), and
        # within a chunk the sessions are interleaved round-robin (first segments of all sessions, then the second ones, ...):
        # other flows in between must not matter
        ctx.case(reset=(base == 0), record=False)
        rs = ctx.send_many(syns)
        per_sess = []
        for k, (cuts, (e, sp, dp, isn), r) in enumerate(zip(chunk, flows, rs)):
            a = pkt.parse(r.reply) if r.kind == "R" else {}
            if a.get("flags") != (SYN | ACK):
                ctx.inconclusive += 1
                per_sess.append([])
                continue
            if not ctx.claim_cookie(a["seq"], (e.cip, e.sip, sp, dp)):
                # birthday collision with an earlier session of this table (thousands pile up): that session's control block
                # would be continued - the recorded cookie-collision finding, not a segmentation effect; session dropped
                per_sess.append([])
                continue
            ack = (a["seq"] + 1) & 0xFFFFFFFF
            seq = (isn + 1) & 0xFFFFFFFF
            segs = []
            # some clients put bare ACKs (the third packet of the handshake, window updates, keep-alives) before and between
            # their data segments: they carry no data and change nothing
            acks = rng.random() < 0.12
            if acks and rng.random() < 0.5:
                segs.append((k, None, seq, ack, e.tcp(sp, dp, seq, ack, ACK, b"")))
            for seg in cut(stream, cuts):
                segs.append((k, seg, seq, ack, e.tcp(sp, dp, seq, ack, PSH | ACK, seg)))
                seq = (seq + len(seg)) & 0xFFFFFFFF
                if acks and rng.random() < 0.5:
                    segs.append((k, None, seq, ack, e.tcp(sp, dp, rng.choice([seq, seq, (seq - 1) & 0xFFFFFFFF]), ack, ACK, b"")))
            per_sess.append(segs)
        frames, owner = [], []
        depth = max([len(x) for x in per_sess] + [0])
        rr = rng.random() < 0.7
        if rr:
            for j in range(depth):
                for segs in per_sess:
                    if j < len(segs):
                        owner.append(segs[j][:4])
                        frames.append(segs[j][4])
        else:
            for segs in per_sess:
                for x in segs:
                    owner.append(x[:4])
                    frames.append(x[4])
        rs = ctx.send_many(frames)
        per = [[] for _ in chunk]
        pend = {}
        for (k, seg, seq, ack), f, r in zip(owner, frames, rs):
            if seg is None:
                ctx.stats["bare_acks_between_segments"] += 1
                pend.setdefault(k, []).append(f)
                continue
            f = Fr(f)
            f.pre = pend.pop(k, [])         # (bare ACKs sent before this segment: part of the replay)
            per[k].append((seg, seq, ack, f, r))
        out.extend(zip(chunk, per))
    return out


def judge(ctx, kind, stream, trig, ref_payload, cuts, segs, cfg):
    """segs: list of (segment bytes, seq, ack, frame, Res)"""
    pos = 0
    done = False
    for i, (seg, seq, ack, f, r) in enumerate(segs):
        end = pos + len(seg)
        contains_trigger = trig is not None and ref_payload is not None and pos <= trig < end
        a = pkt.parse(r.reply) if r.kind == "R" else None
        key = None
        if done:
            break       # after the completing segment: unconstrained
        if r.kind != "R":
            key, what = "segment_unanswered", "data segment #%d got no reply at all" % i
        elif contains_trigger:
            done = True
            got = canon.mask_app(a.get("data")) if a.get("data") else None
            if got is None:
                key, what = "reply_missing", "segment #%d contains the completing byte (offset %d) but carries no reply (flags %03x)" % (i, trig, a.get("flags", -1))
            elif got != ref_payload:
                key, what = "reply_differs", "segment #%d: reply content differs from the unsegmented run (%d vs %d bytes)" % (i, len(got), len(ref_payload))
            elif a.get("flags") != (PSH | ACK):
                key, what = "reply_flags", "reply segment has flags %03x" % a.get("flags", -1)
        else:
            if a.get("data") or a.get("flags") != ACK:
                when = "before the request is complete" if ref_payload is not None else "although the stream is never answered unsegmented"
                key, what = ("early_reply" if ref_payload is not None else "negative_answered"), \
                    "segment #%d (stream bytes %d..%d, trigger at %s) is answered with flags %03x and %d payload bytes %s" % (
                        i, pos, end - 1, trig, a.get("flags", -1), len(a.get("data") or b""), when)
        if key is None and a is not None:
            if a.get("seq") != ack or a.get("ack") != (seq + len(seg)) & 0xFFFFFFFF:
                key, what = "arith", "segment #%d: reply seq/ack %s/%s, expected %d/%d" % (i, a.get("seq"), a.get("ack"), ack, (seq + len(seg)) & 0xFFFFFFFF)
        if key:
            first = cuts[0] if cuts else len(stream)
            siglen = 28 if kind.startswith("rpc") else stream.find(b"/") + 1
            ctx.violation("%s:%s:%s" % (kind, key, "cut_in_signature" if kind != "http_neg" and first < siglen else "cut_after_signature"),
                          "%s; stream of %d bytes cut at %s" % (what, len(stream), cuts), observed=(r.reply.hex() if r.reply else r.kind)[:300],
                          expected="bare ACK before the trigger byte, the reply exactly at it", frames=with_pre([x[3] for x in segs[:i + 1]]),
                          extra={"stream": stream.hex(), "cuts": cuts})
            return False
        pos = end
    return True


def shard(ctx, budget_s, n_http, n_rpc, maxlen):
    rng = ctx.rng
    deadline = time.time() + budget_s
    cfg = gen.rnd_config(rng, deny=False, logger=rng.choice("nnnncl"), level=rng.choice([0, 0, 2, 3, 4, 5]))
    ctx.case(cfg)
    streams = gen_streams(rng, n_http, n_rpc, maxlen)
    negs = negatives(rng, streams)
    rng.shuffle(negs)           # prefaced requests and single-fault requests alike
    # ... but every fault class that depends on what shares a segment with what is present in every shard
    must = []
    for f in ("folded_header", "misspelt_http", "header_no_colon"):
        p0 = next((p for k_, s_, t_, a_, p in streams if k_ == "http" and p is not None), None)
        if p0 is not None:
            must.append(("http_neg", http.fault(rng, p0, f) if f != "misspelt_http" else
                         http.build(p0).replace(b" HTTP/", rng.choice([b" http/", b" Http/", b" hTTP/"]), 1), None, False, None))
    streams += must + negs[:8 if ctx.tier == "quick" else 32]
    # the time budget may end before the list does: no class of streams is always last
    head, tail = streams[:1], streams[1:]
    rng.shuffle(tail)
    streams = head + tail
    hist = ctx.extra.setdefault("first_cut_histogram", {})
    for si, (kind, stream, trig, _ans, _p) in enumerate(streams):
        if time.time() > deadline and si > 0:
            ctx.stats["streams_skipped_budget"] += 1
            continue
        full = len(stream) <= (80 if ctx.tier == "quick" else 130) and kind != "http_neg"
        plans = plans_for(rng, len(stream), ctx.tier, full) if len(stream) <= 600 else plans_long(rng, len(stream), trig)
        res = run_sessions(ctx, cfg, stream, plans)
        # reference: the unsegmented run (plan [])
        ref = [segs for cuts, segs in res if cuts == []]
        if not ref or not ref[0]:
            ctx.inconclusive += 1
            continue
        r0 = ref[0][0][4]
        a0 = pkt.parse(r0.reply) if r0.kind == "R" else {}
        ref_payload = canon.mask_app(a0.get("data")) if a0.get("data") else None
        if kind not in ("http_neg", "rpc_odd") and ref_payload is None:
            ctx.violation("%s:unsegmented_unanswered" % kind, "complete valid request not answered when delivered in one segment", observed=r0.kind,
                          frames=[ref[0][0][3]], extra={"stream": stream.hex()})
            continue
        # cross-check the grammar's trigger byte against the byte-wise run
        bw = [segs for cuts, segs in res if cuts == list(range(1, len(stream))) and segs]
        okind = kind
        if kind == "http_neg" and ref_payload is not None:
            # whether such a stream *should* be answered is C13's business; that it is answered in one piece makes it, for
            # this property, a stream that has to be answered - with the same content, at the same byte - however it is cut
            ctx.stats["negative_answered_unsegmented(C13)"] += 1
            okind, kind = "http_neg", "rpc_odd"
        if kind == "rpc_odd":
            if ref_payload is None or not bw:
                ctx.stats["rpc_odd_unanswered_unsegmented"] += 1
                continue
            trig = next((i for i, x in enumerate(bw[0]) if x[4].kind == "R" and pkt.parse(x[4].reply).get("data")), None)
            if trig is None:
                ctx.violation(okind + ":bytewise_unanswered", "stream answered in one segment but never when delivered byte by byte", observed="no reply",
                              frames=with_pre([x[3] for x in bw[0][:60]]), extra={"stream": stream.hex(), "cuts": list(range(1, len(stream)))})
                continue
        if bw and ref_payload is not None and kind != "rpc_odd":
            firstrep = next((i for i, x in enumerate(bw[0]) if x[4].kind == "R" and pkt.parse(x[4].reply).get("data")), None)
            ctx.extra.setdefault("trigger_crosscheck", {"agree": 0, "differ": 0})
            ctx.extra["trigger_crosscheck"]["agree" if firstrep == trig else "differ"] += 1
        for cuts, segs in res:
            ok = judge(ctx, kind, stream, trig, ref_payload, cuts, segs, cfg)
            ctx.stats["sessions_" + kind] += 1
            if cuts and (trig is None or cuts[0] <= trig):
                ctx.nontrivial(stream, tuple(cuts))
                b = str(min(cuts[0], 40))
                hist[b] = hist.get(b, 0) + 1
        if ctx.shard == 0 and len(ctx.samples) < 3:
            ctx.sample({"kind": kind, "stream": repr(stream[:100]), "trigger_offset": trig, "segmentations": len(plans)})


def run(tier, seed):
    v = core.Verdict(PROP, tier, seed)
    if tier == "quick":
        v.merge(core.run_shards(shard, PROP, tier, seed, budget_s=40, n_http=8, n_rpc=8, maxlen=80))
    else:
        v.merge(core.run_shards(shard, PROP, tier, seed, budget_s=900, n_http=40, n_rpc=40, maxlen=160))
    return v.finish(RULE, floor=500, assumptions=ASSUME)
