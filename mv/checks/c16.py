"""C16 - ONC-RPC/portmapper: replies correlated, framed, advertise the contacted endpoint."""
import time

from .. import core, gen, pkt, sigref
from ..applab import AppLab
from ..protos import rpc

PROP = "C16"
RULE = ("calls with random xids, all 256 programs 99840..100095, versions {0..6, 104316, random}, all procedures 0..255, "
        "credential / verifier bodies of 0..400 bytes (multiples of 4), optional arguments, destination ports incl. "
        "0/255/256/65535 and random, IPv4 and IPv6, UDP and (record-marked) TCP in one segment, a quarter of the TCP calls also in 2-5 segments, one shard behind a connection table already holding 66 000 flows; each reply is decoded by an "
        "independent XDR reader: xid, msg_type, reply_stat, null verifier, accept_stat by the precedence of the statement, "
        "PROG_MISMATCH(2,4), GETPORT port / GETADDR universal address / DUMP list advertising exactly the contacted address "
        "and port with a netid matching the IP version, 4-byte alignment, zero padding, record mark (last-fragment bit, "
        "length). Calls on which the matchers disagree (shadowed xids) are skipped and counted. Non-trivial = every judged "
        "call; distinct = distinct (program, version class, procedure, auth lengths, transport, IP version, port class).")
ASSUME = ["opaque_auth bodies are multiples of 4 bytes long in the must-answer set",
          "the rpc version field is 2 and the message type 0 (CALL) in generated calls"]


def shard(ctx, budget_s):
    rng = ctx.rng
    deadline = time.time() + budget_s
    n = 0
    # systematic part: every program and every procedure once per shard slice
    sysq = [(prog, None) for prog in range(99840 + ctx.shard, 100096, ctx.nshards)] + \
           [(rpc.PMAP, proc) for proc in range(ctx.shard, 256, ctx.nshards)]
    while time.time() < deadline or n == 0 or sysq:
        cfg = gen.rnd_config(rng, deny=False, logger=rng.choice("nnncl"), level=rng.choice([0, 0, 2, 3, 4, 5]))
        crowded = ctx.shard == 3 % ctx.nshards
        ctx.case(cfg, reset=not crowded)
        lab = AppLab(ctx, cfg)
        if n == 0 and crowded:
            # a responder that has already seen more than 2^16 connections must behave the same
            lab.crowd(66000)
            ctx.stats["crowded_table_rounds"] += 1
        for _ in range(50):
            if sysq:
                prog, proc = sysq.pop()
                c = rpc.gen_call(rng, prog=prog, proc=proc, vers=rng.choice([2, 3, 4]) if proc is not None else None, maxauth=40)
            else:
                c = rpc.gen_call(rng, maxauth=rng.choice([0, 40, 400]))
            for tr in ("udp", "tcp"):
                payload = c["msg"] if tr == "udp" else rpc.record(c["msg"])
                want = sigref.RPC_UDP if tr == "udp" else sigref.RPC_TCP
                if lab.identified(payload, tr) != want:
                    ctx.stats["skipped_matcher_disagreement_" + tr] += 1
                    continue
                dp = rng.choice([0, 255, 256, 65535, 111, gen.rnd_port(rng)])
                a = lab.ask(payload, tr, dp=dp)
                errs = rpc.check_reply(a.rep, c, a.e.sip, a.dp, tr == "tcp")
                kind = rpc.expected_accept(c)[1]
                ctx.stats["%s_%s" % (kind, tr)] += 1
                vc = c["vers"] if c["vers"] < 8 else "big"
                ctx.nontrivial(c["prog"], vc, c["proc"], len(c["msg"]), tr, a.e.v6, min(a.dp, 257))
                for e in errs:
                    ctx.violation("reply:%s:%s" % (kind, e.split(" ")[0]), "%s; call prog=%d vers=%d proc=%d over %s to %s port %d" % (
                        e, c["prog"], c["vers"], c["proc"], tr, pkt.ip_s(a.e.sip), a.dp), observed=(a.rep or b"").hex()[:400], expected=kind)
            # the same call over TCP in several segments (record mark / xid / header split anywhere)
            if rng.random() < 0.25:
                payload = rpc.record(c["msg"])
                tail = len(c["msg"]) - 1 - c["trigger"]          # argument bytes after the verifier: the reply is due before them
                if lab.identified(payload, "tcp") == sigref.RPC_TCP and tail == 0:
                    lab.positive_segmented(payload, lambda r: rpc.is_rpc_reply(r, c["xid"], True), "rpc", min_sig=28)
            if ctx.shard == 0 and len(ctx.samples) < 3:
                ctx.sample({"call": c["msg"].hex()[:160], "prog": c["prog"], "vers": c["vers"], "proc": c["proc"]})
        n += 1


def run(tier, seed):
    v = core.Verdict(PROP, tier, seed)
    v.merge(core.run_shards(shard, PROP, tier, seed, budget_s=20 if tier == "quick" else 200))
    return v.finish(RULE, floor=500, assumptions=ASSUME)
