"""C02 - silence outside scope: foreign MACs/IPs, denied peers, unsupported protocols.

Oracle: independent scope model (Auth-MAC set, deny set, supported EtherTypes / protocol numbers) plus
"every reply is sourced from / advertises only configured addresses".  Every test frame has a *control*
twin (same content, addressed in scope under the permissive configuration); a case is non-trivial only if the
control is answered, i.e. silence is due to the filter under test and not to the content.
"""
import struct
import time

from .. import core, gen, pkt
from ..driver import Config
from ..pkt import ET_ARP, ET_IP4, ET_IP6, P_ICMP, P_ICMP6, P_TCP, P_UDP, SYN
from ..protos import stun, dns

PROP = "C02"
RULE = ("random configurations (MAC; self-IP set absent or 1-6 mixed v4/v6 addresses; deny set absent or 1-4 addresses); "
        "answerable contents (ARP request, echo v4/v6, NS, SYN, UDP STUN with and without CHANGE-REQUEST (change-ip / change-port), DNS) sent to: every member of the authorised "
        "MAC set, every single-bit flip of each member, unmasked RFC 1112 mappings, solicited-node MACs of foreign "
        "addresses, random MACs; destination IPs in / one bit off / outside the self-IP set and multicast; sources in "
        "/ one bit off the deny set; every EtherType; answerable content behind 802.1Q/802.1ad/MPLS/PPPoE encapsulation; multicast MAC mappings of the other address family; answerable content behind IPv6 extension headers; sources incl. the unspecified / loopback / group addresses; every IP protocol number (v4 and v6). Non-trivial = out-of-scope "
        "(or reply-source-constrained) case whose in-scope control twin was answered under the permissive "
        "configuration; distinct = distinct (scope reason, template, configuration, frame).")
ASSUME = ["'handled IP address' = member of the configured self-IP set (any address when the set is absent)",
          "ARP sender addresses are not subject to the deny list (the statement restricts it to IP packets)"]

SUPPORTED4 = (P_ICMP, P_TCP, P_UDP)
SUPPORTED6 = (P_ICMP6, P_TCP, P_UDP)


def auth_macs(cfg):
    a = {cfg.mac, pkt.BCAST, pkt.ALLNODES_MAC}
    for ipa in cfg.selfips or []:
        a.add(pkt.mcast_mac4(ipa) if len(ipa) == 4 else pkt.solicited_mac(ipa))
    return a


def out_of_scope(f, cfg):
    """Reason string if the model says the frame must not be answered, else None."""
    q = pkt.parse(f)
    if "etype" not in q:
        return None
    if q.eth_dst not in auth_macs(cfg):
        return "mac"
    if q.etype not in (ET_ARP, ET_IP4, ET_IP6):
        return "ethertype"
    if "v" in q:
        if cfg.deny and q.src in cfg.deny:
            return "deny"
        if q.v == 4 and q.proto not in SUPPORTED4:
            return "proto4"
        if q.v == 6 and q.proto not in SUPPORTED6:
            return "proto6"
    return None


def reply_identity_errors(r, cfg):
    """With a self-IP set: source / advertised addresses of a reply must belong to it."""
    if not cfg.selfips:
        return []
    a = pkt.parse(r)
    errs = []
    if a.get("etype") == ET_ARP and "arp_spa" in a:
        if a.arp_spa not in cfg.selfips:
            errs.append("arp_advertises %s which is not a configured address" % pkt.ip_s(a.arp_spa))
    if "v" in a:
        if a.src not in cfg.selfips:
            errs.append("reply_source %s is not a configured address" % pkt.ip_s(a.src))
        if a.v == 6 and a.proto == P_ICMP6 and a.get("itype") == 136 and len(a.irest) >= 20:
            if a.irest[4:20] not in cfg.selfips:
                errs.append("na_advertises %s which is not a configured address" % pkt.ip_s(a.irest[4:20]))
    return errs


# content templates: fn(dmac, cmac, cip, sip) -> frame ------------------------------------------------
def templates(rng, ns_target=None, poll_mac=None):
    tid = stun.gen_tid(rng, True)
    stun_req = stun.msg(1, tid)
    stun_cr = stun.msg(1, tid, struct.pack("!HH", 3, 4) + b"\0\0\0" + bytes([rng.choice([2, 4, 6])]))    # change-port / change-ip / both
    dq = dns.header(rng.getrandbits(16) | 0x0100, 0x0100, 1) + dns.question([b"scope", b"test"])
    sp, dp = rng.randrange(1024, 65535), gen.rnd_port(rng)
    seq = rng.getrandbits(32)
    ident = rng.getrandbits(16)

    def l3(dmac, cmac, cip, sip, proto, l4):
        if len(cip) == 16:
            return pkt.eth(dmac, cmac, ET_IP6, pkt.ip6(cip, sip, proto, l4))
        return pkt.eth(dmac, cmac, ET_IP4, pkt.ip4(cip, sip, proto, l4))

    t4 = [
        ("arp", lambda dm, cm, ci, si: pkt.eth(dm, cm, ET_ARP, pkt.arp(1, cm, ci, b"\0" * 6, si))),
        # "unicast poll": the request already names the responder's MAC as target hardware address
        ("arppoll", lambda dm, cm, ci, si: pkt.eth(dm, cm, ET_ARP, pkt.arp(1, cm, ci, poll_mac or dm, si))),
        ("echo4", lambda dm, cm, ci, si: l3(dm, cm, ci, si, P_ICMP, pkt.icmp4(8, 0, struct.pack("!HH", ident, 1) + b"scope"))),
        ("syn4", lambda dm, cm, ci, si: l3(dm, cm, ci, si, P_TCP, pkt.tcp(ci, si, sp, dp, seq, 0, SYN))),
        ("stun4", lambda dm, cm, ci, si: l3(dm, cm, ci, si, P_UDP, pkt.udp(ci, si, sp, dp, stun_req))),
        ("dns4", lambda dm, cm, ci, si: l3(dm, cm, ci, si, P_UDP, pkt.udp(ci, si, sp, dp, dq))),
        ("stuncr4", lambda dm, cm, ci, si: l3(dm, cm, ci, si, P_UDP, pkt.udp(ci, si, sp, dp, stun_cr))),
    ]
    t6 = [
        ("echo6", lambda dm, cm, ci, si: l3(dm, cm, ci, si, P_ICMP6, pkt.icmp6(ci, si, 128, 0, struct.pack("!HH", ident, 1) + b"scope"))),
        ("ns6", lambda dm, cm, ci, si: l3(dm, cm, ci, si, P_ICMP6, pkt.icmp6(ci, si, 135, 0, b"\0\0\0\0" + si + b"\x01\x01" + cm))),
        # solicitation for a fixed (handled) target, sent to whatever destination address the case dictates
        ("ns6t", lambda dm, cm, ci, si: l3(dm, cm, ci, si, P_ICMP6, pkt.icmp6(ci, si, 135, 0, b"\0\0\0\0" + (ns_target or si) + b"\x01\x01" + cm))),
        ("syn6", lambda dm, cm, ci, si: l3(dm, cm, ci, si, P_TCP, pkt.tcp(ci, si, sp, dp, seq, 0, SYN))),
        ("stun6", lambda dm, cm, ci, si: l3(dm, cm, ci, si, P_UDP, pkt.udp(ci, si, sp, dp, stun_req))),
        ("stuncr6", lambda dm, cm, ci, si: l3(dm, cm, ci, si, P_UDP, pkt.udp(ci, si, sp, dp, stun_cr))),
    ]
    return t4, t6


def flip_all(b):
    return [bytes(x ^ (1 << bit) if i == j else x for j, x in enumerate(b)) for i in range(len(b)) for bit in range(8)]


def one_bit_neighbours(rng, a, n=4):
    out = []
    for _ in range(n):
        i = rng.randrange(len(a) * 8)
        out.append(bytes(x ^ (1 << (i % 8)) if j == i // 8 else x for j, x in enumerate(a)))
    return out


def build_cases(ctx, cfg, sweep):
    """-> list of (name, test_frame, control_frame)"""
    rng = ctx.rng
    s4 = [a for a in (cfg.selfips or []) if len(a) == 4]
    s6 = [a for a in (cfg.selfips or []) if len(a) == 16]
    t4, t6 = templates(rng, ns_target=rng.choice(s6) if s6 else gen.rnd_ip6(rng), poll_mac=cfg.mac)
    cases = []
    auth = sorted(auth_macs(cfg))
    cm = gen.rnd_mac(rng)

    def clean_src(v6):
        while True:
            # also the unspecified address, loopback, group addresses ... as sources: what is advertised / used as reply
            # source must come from the self-IP set whoever asks
            c = gen.rnd_ip6(rng, special=0.15) if v6 else gen.rnd_ip4(rng, special=0.1)
            if not cfg.deny or c not in cfg.deny:
                return c

    for fam, ts, S in ((4, t4, s4), (6, t6, s6)):
        v6 = fam == 6
        for name, fn in ts:
            sip = rng.choice(S) if S else (gen.rnd_ip6(rng) if v6 else gen.rnd_ip4(rng))
            cip = clean_src(v6)
            control = fn(cfg.mac, cm, cip, sip)
            # 1. destination MACs
            macs = list(auth)
            for m in auth:
                macs.extend(flip_all(m))
            for a in s4:
                macs.append(bytes([0x01, 0x00, 0x5E, a[1] | 0x80, a[2], a[3]]))     # RFC 1112 without the 23-bit mask
                macs.append(bytes([0x01, 0x00, 0x5E, a[0] & 0x7F, a[1], a[2]]))     # wrong octets
                # mapping of the other address family applied to this address's low-order bits
                macs.append(b"\x33\x33\xff" + a[1:4])
                macs.append(b"\x33\x33\xff" + bytes([a[1] & 0x7F]) + a[2:4])
                macs.append(b"\x33\x33" + a)
            for a in s6:
                macs.append(b"\x01\x00\x5e" + a[13:16])
                macs.append(b"\x01\x00\x5e" + bytes([a[13] & 0x7F]) + a[14:16])
                macs.append(b"\x33\x33" + a[12:16])                                  # RFC 2464 mapping of the unicast address itself
            for _ in range(3):
                foreign = gen.rnd_ip6(rng)
                macs.append(pkt.solicited_mac(foreign))
                macs.append(pkt.mcast_mac4(gen.rnd_ip4(rng)))
                macs.append(gen.rnd_mac(rng))
                macs.append(gen.rnd_mac(rng, unicast=False))
            macs.append(b"\x33\x33\x00\x00\x00\x02")
            macs.append(b"\x33\x33\xff\x00\x00\x01")
            macs.append(b"\x01\x00\x5e\x00\x00\x01")
            macs.append(b"\0" * 6)
            for m in macs:
                cases.append((name + "/mac", fn(m, cm, cip, sip), control))
            # 2. destination IPs relative to the self-IP set
            dsts = []
            for a in S:
                dsts.extend(one_bit_neighbours(rng, a, 6))
            dsts.extend([gen.rnd_ip6(rng) if v6 else gen.rnd_ip4(rng) for _ in range(4)])
            dsts.append(pkt.ip("ff02::1") if v6 else pkt.ip("224.0.0.1"))
            dsts.append(pkt.ip("ff02::1:ff00:1") if v6 else pkt.ip("255.255.255.255"))
            for d in dsts:
                for m in (cfg.mac, pkt.BCAST, pkt.ALLNODES_MAC):
                    cases.append((name + "/dst", fn(m, cm, cip, d), fn(cfg.mac, cm, cip, d)))
            # 3. sources relative to the deny set
            for a in (cfg.deny or []):
                if (len(a) == 16) != v6:
                    continue
                cases.append((name + "/deny", fn(cfg.mac, cm, a, sip), control))
                cases.append((name + "/deny", fn(pkt.BCAST, cm, a, sip), control))
                for nb in one_bit_neighbours(rng, a, 3):
                    cases.append((name + "/denynb", fn(cfg.mac, cm, nb, sip), control))
    # 3b. a solicitation delivered on the solicited-node group of a handled address but asking for a *foreign* target that
    #     merely shares its low 24 bits (the group is joined by every such address): must not be answered on the foreign
    #     address's behalf
    for a in s6:
        for _ in range(2):
            t = bytes([0x20, 0x01, 0x0d, 0xb8]) + bytes(rng.getrandbits(8) for _x in range(9)) + a[13:]
            if t in (cfg.selfips or []):
                continue
            cip = clean_src(True)
            dst = pkt.solicited_node(a)
            body = b"\0\0\0\0" + t + b"\x01\x01" + cm
            mk = lambda dm: pkt.eth(dm, cm, ET_IP6, pkt.ip6(cip, dst, P_ICMP6, pkt.icmp6(cip, dst, 135, 0, body), hlim=255))
            cases.append(("ns6col/dst", mk(pkt.solicited_mac(a)), mk(cfg.mac)))
    # 4. link-layer encapsulations the responder does not implement (VLAN tags, MPLS, PPPoE) around answerable content
    for nm, fn in t4 + t6:
        v6 = nm.endswith("6") or nm.endswith("6t")
        S = s6 if v6 else s4
        good = fn(cfg.mac, cm, clean_src(v6), rng.choice(S) if S else (gen.rnd_ip6(rng) if v6 else gen.rnd_ip4(rng)))
        for f in gen.encapsulated(rng, good):
            cases.append(("sweep/encap", f, good))
    # 4b. IPv6 extension headers are not implemented: next header 0 / 43 / 60 / 44 / 51 is an unsupported protocol even when a
    #     well-formed extension header is followed by answerable content
    for nm, fn in t6:
        S = s6
        good = fn(cfg.mac, cm, clean_src(True), rng.choice(S) if S else gen.rnd_ip6(rng))
        real_nh, l4 = good[14 + 6], good[14 + 40:]
        for nh in (0, 43, 60, 44, 51):
            if nh == 44:
                ext = bytes([real_nh, 0, 0, 0]) + struct.pack("!I", rng.getrandbits(32))               # atomic fragment
            elif nh == 43:
                ext = bytes([real_nh, 0, rng.choice([0, 2, 4]), 0, 0, 0, 0, 0])                         # routing, segments left 0
            elif nh == 51:
                ext = bytes([real_nh, 1, 0, 0]) + bytes(8)                                              # authentication header
            else:
                ext = bytes([real_nh, 0, 1, 4, 0, 0, 0, 0])                                             # PadN
            ip = bytearray(good[14:14 + 40])
            ip[6] = nh
            ip[4:6] = struct.pack("!H", len(ext) + len(l4))
            cases.append(("sweep/exthdr", good[:14] + bytes(ip) + ext + l4, good))
    # 5. EtherType / protocol-number sweeps (answerable content under a wrong number)
    if sweep:
        sip4 = rng.choice(s4) if s4 else gen.rnd_ip4(rng)
        sip6 = rng.choice(s6) if s6 else gen.rnd_ip6(rng)
        c4, c6 = clean_src(False), clean_src(True)
        good4 = dict(t4)["echo4"](cfg.mac, cm, c4, sip4)
        good6 = dict(t6)["echo6"](cfg.mac, cm, c6, sip6)
        garp = dict(t4)["arp"](cfg.mac, cm, c4, sip4)
        for et in sweep:
            for good in (good4, good6, garp):
                cases.append(("sweep/ethertype", good[:12] + struct.pack("!H", et) + good[14:], good))
        byname4, byname6 = dict(t4), dict(t6)
        stun4 = byname4["stun4"](cfg.mac, cm, c4, sip4)
        stun6 = byname6["stun6"](cfg.mac, cm, c6, sip6)
        syn4 = byname4["syn4"](cfg.mac, cm, c4, sip4)
        for p in range(256):
            for good in (stun4, syn4, good4):
                ip = bytearray(good[14:])
                ip[9] = p
                ip[10:12] = b"\0\0"
                ip[10:12] = struct.pack("!H", pkt.csum(bytes(ip[:20])))
                cases.append(("sweep/proto4", good[:14] + bytes(ip), good))
            for good in (stun6, good6):
                ip = bytearray(good[14:])
                ip[6] = p
                cases.append(("sweep/proto6", good[:14] + bytes(ip), good))
    return cases


def shard(ctx, budget_s):
    rng = ctx.rng
    deadline = time.time() + budget_s
    ets = list(range(ctx.shard, 65536, ctx.nshards))
    first = True
    nconf = 0
    while time.time() < deadline or first:
        cfg = gen.rnd_config(rng, logger="n", level=0, n4=3, n6=3, single_family=True)
        perm = Config(cfg.mac, None, None, cfg.key, "n", 0)
        cases = build_cases(ctx, cfg, ets if first else None)
        first = False
        ctx.case(cfg, record=False)
        rs = ctx.send_many([c[1] for c in cases])
        pending = []
        for (name, f, ctrl), r in zip(cases, rs):
            reason = out_of_scope(f, cfg)
            ctx.stats["frames_" + (reason or "inscope")] += 1
            if reason is not None:
                if r.kind == "R":
                    ctx.violation("answered_out_of_scope:%s:%s" % (reason, name.split("/")[0]),
                                  "frame out of scope (%s) was answered: %s -> %s" % (reason, pkt.summary(f), pkt.summary(r.reply)),
                                  observed=r.reply.hex(), expected="silence", frames=[f])
                pending.append((name, reason, f, ctrl))
            elif r.kind == "R":
                ctx.stats["inscope_replies"] += 1
                errs = reply_identity_errors(r.reply, cfg)
                for e in errs:
                    ctx.violation("identity:%s:%s" % (e.split(" ")[0], name.split("/")[0]),
                                  "%s; request %s -> reply %s" % (e, pkt.summary(f), pkt.summary(r.reply)),
                                  observed=r.reply.hex(), expected="source/advertised address in the self-IP set", frames=[f])
                if cfg.selfips:
                    pending.append((name, "identity", f, ctrl))
            elif cfg.selfips and name.endswith("/dst"):
                # silence for a destination outside the self-IP set: counts if the control is answerable
                pending.append((name, "dstip", f, ctrl))
        # controls under the permissive configuration
        ctx.case(perm, record=False)
        uniq = {}
        for name, reason, f, ctrl in pending:
            uniq.setdefault(ctrl, None)
        ctrls = list(uniq)
        crs = ctx.send_many(ctrls)
        ans = {c: (r.kind == "R") for c, r in zip(ctrls, crs)}
        for name, reason, f, ctrl in pending:
            if ans[ctrl]:
                ctx.nontrivial(reason, name, f)
                ctx.stats["nt_" + reason] += 1
            else:
                ctx.stats["control_unanswered"] += 1
        if nconf == 0 and ctx.shard == 0:
            for name, reason, f, ctrl in pending[:200:40]:
                ctx.sample({"reason": reason, "template": name, "config": cfg.to_json(), "frame": pkt.summary(f), "hex": f.hex()})
        nconf += 1
    ctx.stats["configs"] += nconf


def run(tier, seed):
    v = core.Verdict(PROP, tier, seed)
    v.merge(core.run_shards(shard, PROP, tier, seed, budget_s=25 if tier == "quick" else 420))
    return v.finish(RULE, floor=2000 if tier == "quick" else 20000, assumptions=ASSUME)
