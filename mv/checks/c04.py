"""C04 - every emitted frame is well-formed at every layer (independent re-parse and re-checksum of every reply).

Owns the universal well-formedness monitor; adds directed sweeps: every echo payload length, and checksum
steering (drive a reply's checksum to the 0x0000 / 0xFFFF boundary deterministically through an echoed field)."""
import struct
import time

from .. import core, gen, pkt, workloads, monitors
from ..pkt import SYN, ACK, P_UDP
from ..protos import stun, dns

PROP = "C04"
RULE = ("all replies of the shared reply-eliciting mix (all protocols, both IP versions, TCP and UDP, odd and even "
        "lengths; every third round behind 300 / 1000 / 5000 connections already held by the responder) and of its re-framed variants (IPv4 options of 4..40 bytes, Ethernet padding, total length beyond the capture, TCP "
        "options, byte-level mutations), every echo payload length 0..1472 for ICMPv4 and ICMPv6 plus sampled lengths up to 4000, and "
        "checksum steering: after observing one reply the monitor computes the 16-bit adjustment of an echoed request "
        "field (STUN transaction id, DNS id, RPC xid, echo identifier, TCP acknowledgement number of a FIN|ACK) that drives the reply's computed "
        "checksum to 0x0000 / 0x0001 / 0xFFFE and sends the adjusted request. Every layer of every reply is re-verified "
        "by own code (lengths, IHL/data offset, fragmentation, TTL/hop limit, header/ICMP/TCP/UDP checksums over the right "
        "pseudo-header). Non-trivial = reply present and all applicable layer checks executed; distinct = distinct reply bytes.")
ASSUME = ["UDP/IPv4 checksum field 0 is accepted as 'no checksum' (RFC 768); UDP/IPv6 checksum field 0 is rejected (RFC 8200)",
          "replies larger than the largest one actually elicited (reported as max_reply_len) are not explored; frames are <= 4096 bytes"]


def oc_sub(a, b):
    """a - b in 16-bit ones-complement arithmetic (result in 0..0xFFFE)."""
    return (a - b) % 0xFFFF


def steer(ctx, build, field_of_reply, tag):
    """build(word) -> request frame whose 16-bit word `word` is echoed at an even offset of the reply's
    checksummed data.  Returns number of steered requests sent."""
    r0 = ctx.send(build(0))
    if r0.kind != "R":
        ctx.stats["steer_noreply_" + tag] += 1
        return
    c0 = field_of_reply(r0.reply)
    if c0 is None:
        return
    s0 = (~c0) & 0xFFFF          # folded sum of everything but the checksum field, with word = 0
    for target_sum, label in ((0xFFFF, "zero"), (0xFFFE, "one"), (0x0001, "fffe")):
        # want s0 (+) w == target_sum  (mod 0xFFFF)
        w = oc_sub(target_sum % 0xFFFF, s0 % 0xFFFF)
        for cand in ([w] if w else [0xFFFF]):
            r = ctx.send(build(cand))
            if r.kind != "R":
                continue
            c = field_of_reply(r.reply)
            want = (~target_sum) & 0xFFFF
            if c == want or (want == 0 and c == 0xFFFF):
                ctx.stats["steer_hit_%s_%s" % (tag, label)] += 1
                ctx.nontrivial("steer", tag, label, r.reply)
            else:
                ctx.stats["steer_miss_%s_%s" % (tag, label)] += 1


def udp_cs(r):
    a = pkt.parse(r)
    return a.get("ucs")


def tcp_cs(r):
    a = pkt.parse(r)
    return a.get("tcs")


def icmp_cs(r):
    a = pkt.parse(r)
    return a.get("ics")


def steering(ctx, cfg):
    rng = ctx.rng
    for v6 in (False, True):
        e = gen.endp(rng, cfg, v6)
        sp, dp = gen.rnd_port(rng), gen.rnd_port(rng)
        tid = bytearray(stun.gen_tid(rng, True))
        pos = rng.choice([4, 6, 8, 10, 12, 14])   # keep the magic cookie intact

        def b_stun(w, tid=tid, pos=pos, e=e, sp=sp, dp=dp):
            t = bytes(tid[:pos]) + struct.pack("!H", w) + bytes(tid[pos + 2:])
            return e.udp(sp, dp, stun.msg(1, t))
        steer(ctx, b_stun, udp_cs, "stun6" if v6 else "stun4")
        ident = rng.getrandbits(16)
        data = bytes(rng.getrandbits(8) for _ in range(rng.randrange(0, 64)))
        steer(ctx, lambda w, e=e: e.echo(w, ident, data), icmp_cs, "echo6" if v6 else "echo4")
        seq, hi = rng.getrandbits(32), rng.getrandbits(16)
        # FIN|ACK is answered with sequence = the request's acknowledgement number: an exact 16-bit echo
        steer(ctx, lambda w, e=e: e.tcp(sp, dp, seq, (hi << 16) | w, pkt.FIN | ACK), tcp_cs, "finack6" if v6 else "finack4")
        if not v6:
            q = dns.question([b"steer", b"example"])
            steer(ctx, lambda w, e=e: e.udp(sp, dp, dns.header(w, 0x0100, 1) + q), udp_cs, "dns4")
        else:
            # RPC over UDP/IPv6: xid echoed (low half steered; high half chosen outside the shadowed set)
            from ..protos import rpc
            hi = 0x7A7A

            def b_rpc(w, e=e):
                return e.udp(sp, dp, rpc.call((hi << 16) | w, 100000, 2, 3))
            steer(ctx, b_rpc, udp_cs, "rpc6")


def shard(ctx, budget_s):
    rng = ctx.rng
    deadline = time.time() + budget_s
    maxlen = 0

    def on_reply(f, r, tag):
        nonlocal maxlen
        if r.kind == "R":
            ctx.nontrivial(r.reply)
            maxlen = max(maxlen, len(r.reply))
            ctx.stats["checked_" + tag.split("_")[0]] += 1
            if len(ctx.samples) < 3 and rng.random() < 0.005:
                ctx.sample({"kind": tag, "request": pkt.summary(f), "reply": pkt.summary(r.reply), "reply_hex": r.reply.hex()[:200]})

    # directed: every echo payload length (partitioned over the shards), both IP versions
    cfg = gen.rnd_config(rng, deny=False, logger="n", level=0)
    ctx.case(cfg, record=False)
    lens = list(range(ctx.shard, 1473, ctx.nshards)) + [rng.randrange(1473, 4000) for _ in range(12)]
    for v6 in (False, True):
        e = gen.endp(rng, cfg, v6)
        fs = [e.echo(rng.getrandbits(16), rng.getrandbits(16), rng.choice([b"\xff" * n, bytes(rng.getrandbits(8) for _ in range(n))])) for n in lens]
        for f, r in zip(fs, ctx.send_many(fs)):
            on_reply(f, r, "echosweep")
    # directed: the largest replies that can be elicited - DNS queries with hundreds of questions (reply ~3.4x the request)
    e = gen.endp(rng, cfg, False)
    for nq in (1, 100, 300, 400 + ctx.shard * 10, 569):
        qs = b"".join(dns.question([bytes([97 + (i % 26)])]) for i in range(nq))
        f = e.udp(gen.rnd_port(rng), gen.rnd_port(rng), dns.header(rng.getrandbits(16), 0x0100, nq) + qs)
        if len(f) <= 4096:
            on_reply(f, ctx.send(f), "bigdns")
    n = 0
    while time.time() < deadline or n == 0:
        cfg = gen.rnd_config(rng, deny=False, logger="n", level=0)
        ctx.case(cfg)
        if n % 3 == 1:
            # a responder that is holding hundreds or thousands of connections emits the same well-formed frames (window,
            # lengths and checksums do not depend on how busy it is)
            from ..applab import AppLab
            ctx.stats["busy_table_rounds"] += 1
            ctx.extra["busy_table_max"] = max(ctx.extra.get("busy_table_max", 0), AppLab(ctx, cfg).crowd(rng.choice([300, 1000, 5000]), payload=[b"x", b"GET /"]))
        workloads.reply_mix(ctx, cfg, rounds=1, on_reply=on_reply)
        ctx.case(reset=False, record=False)
        for _ in range(3):
            steering(ctx, cfg)
        # unusual but legal request framings: IPv4 options, padded frames, TCP options, plus byte-level mutations -
        # whatever the request looks like, an emitted reply has to be well-formed
        base = [f for f in ctx.history if not isinstance(f, str)] or [gen.endp(rng, cfg, False).echo(1, 1, b"x")]
        variants = []
        for f in base:
            q = pkt.parse(f)
            if q.get("v") == 4 and q.ip_hl == 20 and rng.random() < 0.5:
                nopt = 4 * rng.randrange(1, 11)
                opts = rng.choice([b"\x07" + bytes([nopt, 4]) + bytes(nopt - 3), b"\x01" * nopt, bytes(nopt)])[:nopt]
                variants.append(f[:14] + pkt.ip4(q.src, q.dst, q.proto, q.l4, ihl=5 + nopt // 4, opts=opts))
            if "v" in q and rng.random() < 0.3:
                variants.append(f + bytes(rng.randrange(1, 40)))                       # Ethernet padding after the IP datagram
            if q.get("v") == 4 and rng.random() < 0.2:
                variants.append(f[:14] + pkt.ip4(q.src, q.dst, q.proto, q.l4, tot=len(f) - 14 + rng.randrange(1, 64)))   # total length beyond the capture
            if q.get("flags") is not None and q.get("off") == 5 and rng.random() < 0.4:
                e = pkt.Endp(q.eth_src, q.eth_dst, q.src, q.dst)
                o = rng.choice([b"\x02\x04\x05\xb4", b"\x01\x01\x08\x0a" + bytes(8), b"\x02\x04\x05\xb4\x04\x02\x08\x0a" + bytes(8) + b"\x01\x03\x03\x07"])
                variants.append(e.tcp(q.sp, q.dp, q.seq, q.ack, q.flags, q.data, off=5 + len(o) // 4, opts=o))
        variants += [gen.mutate(rng, rng.choice(base), lo=14) for _ in range(300)]
        for f, r in zip(variants, ctx.send_many(variants)):
            on_reply(f, r, "variant")
        n += 1
    ctx.extra["max_reply_len"] = maxlen
    ctx.stats["configs"] += n


def run(tier, seed):
    v = core.Verdict(PROP, tier, seed)
    # both arithmetic profiles in both tiers: a field computed with wrapping arithmetic is wrong in release only
    profiles = ("debug", "release")
    mx = 0
    for p in profiles:
        res = core.run_shards(shard, PROP, tier, seed, profile=p, budget_s=14 if tier == "quick" else 240)
        mx = max([mx] + [r.get("extra", {}).get("max_reply_len", 0) for r in res])
        v.merge(res)
    v.extra["max_reply_len"] = mx
    return v.finish(RULE, floor=500 if tier == "quick" else 5000, assumptions=ASSUME)
