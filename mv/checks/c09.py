"""C09 - unvalidated traffic allocates no connection state (SYN-flood resistance).

Events: connection-table size after every frame (driver reports it on every result line) and the live-heap counter
of the counting allocator inside the guarded driver."""
import time

from .. import core, gen, pkt, findings
from ..driver import Config
from ..pkt import SYN, ACK, PSH, FIN, RST

PROP = "C09"
HEAP_TOL = 4096
RULE = ("(a) model phase: random traffic in which some segments validate their flow (ack = cookie+1 learned from a probe "
        "SYN; payloads: nothing, junk, and every application's request incl. STUN CHANGE-REQUEST), some repeat on validated flows, and the rest is unvalidated (SYN with all 512 flag values, wrong "
        "acknowledgement numbers incl. cookie, cookie+2, 0, FIN|ACK, RST, bare ACK - also carrying cookie+1 of a validated flow, from that flow and from foreign tuples -, UDP requests of every application, ICMP, "
        "ARP, mutated garbage; flows whose cookie is exactly 0 / 0xFFFFFFFF; 66 000 (thorough: 300 000) flows validated in one table); after every frame the table size must equal the number of validated flows of the model and "
        "may only grow by one on a validating segment. (b) flood phase: after a warm-up, N unvalidated frames of every kind "
        "must leave the table size unchanged and the live heap (counting allocator) within 4 KiB of its pre-flood value, "
        "under logger none/console/logfmt at level off and trace. Non-trivial = frames that reach L4 (or ARP); distinct = "
        "distinct frames.")
ASSUME = ["live heap is measured by a counting #[global_allocator] compiled into the guarded driver only",
          "a 4 KiB tolerance absorbs allocator-internal / stdout-buffer effects; a leak of >= 1 byte per 25 flood frames is detected at N = 10^5",
          "a random 32-bit acknowledgement number equals cookie+1 with probability 2^-32 (treated as impossible)"]
KNOWN_COLLISION = "cookie-collision"


def unvalidated_frames(rng, cfg, n, known_flows):
    """Frames that must never create state. known_flows: list of (endp, sp, dp, cookie) for near-miss acks."""
    out = []
    apps = gen.app_requests(rng)
    seeds = [f for _n, f in gen.l2l4_seeds(rng, cfg) if not _n.endswith("pshack_bad")]
    while len(out) < n:
        k = rng.randrange(10)
        e = gen.endp(rng, cfg, rng.random() < 0.5)
        sp, dp = gen.rnd_port(rng), gen.rnd_port(rng)
        if k < 3:
            fl = rng.randrange(512)
            if fl & PSH and fl & ACK:
                fl &= ~PSH
            out.append(e.tcp(sp, dp, rng.getrandbits(32), rng.getrandbits(32), fl, b"x" * rng.choice([0, 0, 10])))
        elif k < 5:
            if known_flows and rng.random() < 0.5:
                fe, fsp, fdp, ck = rng.choice(known_flows)
                ack = (ck + rng.choice([0, 2, 3, -1, 0x10000, 0x80000000])) & 0xFFFFFFFF
                out.append(fe.tcp(fsp, fdp, rng.getrandbits(32), ack, PSH | ACK, b"GET / HTTP/1.1\r\n\r\n"))
            else:
                out.append(e.tcp(sp, dp, rng.getrandbits(32), rng.choice([0, 1, rng.getrandbits(32)]), PSH | ACK | rng.choice([0, 0, FIN, SYN, 0x20]),
                                 rng.choice([b"", b"GET / HTTP/1.1\r\n\r\n", b"data"])))
        elif k == 5:
            out.append(e.tcp(sp, dp, rng.getrandbits(32), rng.getrandbits(32), rng.choice([FIN | ACK, RST, ACK, RST | ACK, FIN])))
        elif k == 6:
            out.append(e.udp(sp, dp, rng.choice(apps)[1]))
        elif k == 7:
            out.append(rng.choice(seeds))
        elif k == 8:
            out.append(e.echo(rng.getrandbits(16), 1, b"flood"))
        else:
            out.append(gen.mutate(rng, rng.choice(seeds), lo=14))
    return out


def is_validating(f, cookies):
    q = pkt.parse(f)
    if "flags" not in q or (q.flags & (PSH | ACK)) != (PSH | ACK):
        return None
    fid = (q.src, q.dst, q.sp, q.dp)
    ck = cookies.get(fid)
    if ck is not None and q.ack == (ck + 1) & 0xFFFFFFFF:
        return fid
    return None


def model_phase(ctx, cfg, rounds):
    rng = ctx.rng
    for _ in range(rounds):
        ctx.case(cfg, reset=True)
        validated = {}
        cookies = {}
        flows = []
        twins = []
        for _f in range(rng.randrange(1, 12)):
            e = gen.endp(rng, cfg, rng.random() < 0.5)
            sp, dp = gen.rnd_port(rng), gen.rnd_port(rng)
            if twins:
                e, sp, dp = twins.pop()
            elif not e.v6 and not cfg.selfips and rng.random() < 0.2:
                # the same endpoints as IPv4-mapped and as IPv4-compatible IPv6 addresses are two more flows
                twins = [(pkt.Endp(e.cmac, e.smac, b"\0" * 10 + b"\xff\xff" + e.cip, b"\0" * 10 + b"\xff\xff" + e.sip), sp, dp),
                         (pkt.Endp(e.cmac, e.smac, bytes(12) + e.cip, bytes(12) + e.sip), sp, dp)]
            r = ctx.send(e.tcp(sp, dp, 1, 0, SYN))
            if r.kind == "R" and pkt.parse(r.reply).get("flags") == (SYN | ACK):
                ck = pkt.parse(r.reply).seq
                cookies[(e.cip, e.sip, sp, dp)] = ck
                flows.append((e, sp, dp, ck))
            if r.table != 0:
                ctx.violation("state_on_syn", "table holds %d entries after a SYN" % r.table, observed=r.table, expected=0)
        script = []
        noise = unvalidated_frames(rng, cfg, rng.randrange(20, 120), flows)
        for f in noise:
            script.append(f)
        apps = [t for _n, _u, t in gen.app_requests(rng)]       # every protocol's request (STUN with CHANGE-REQUEST, portmapper calls, SMB ...) as validating payload
        for (e, sp, dp, ck) in flows:
            for _k in range(rng.choice([0, 1, 1, 2, 3])):
                script.insert(rng.randrange(len(script) + 1), e.tcp(sp, dp, rng.getrandbits(32), (ck + 1) & 0xFFFFFFFF, PSH | ACK,
                                                                     rng.choice(apps) if rng.random() < 0.4 else rng.choice([b"", b"x", b"GET / HTTP/1.1\r\n\r\n", b"SSH-2.0-a\r\n",
                                                                                 # bytes that complete no signature: the flow stays validated all the same
                                                                                 b"OPTIONS sip:nm SIP/2.0\r\nVia: SIP/2.0/TCP nm\r\n", bytes(rng.randrange(1, 256) | 0x80 for _x in range(40))])))
        # control segments that carry the cookie+1 of a (to be) validated flow, on that flow and from unrelated tuples:
        # only PSH|ACK may create state, and nothing may remove it
        for (e, sp, dp, ck) in flows:
            for _k in range(rng.choice([0, 1, 2])):
                fl = rng.choice([FIN | ACK, FIN | ACK, RST, ACK, RST | ACK, FIN, PSH, PSH | FIN, PSH | RST, PSH | 0x20, PSH | SYN])   # PSH without ACK is no data segment
                src = e if rng.random() < 0.5 else gen.endp(rng, cfg, e.v6)
                script.insert(rng.randrange(len(script) + 1), src.tcp(sp if src is e else gen.rnd_port(rng), dp, rng.getrandbits(32), (ck + 1) & 0xFFFFFFFF, fl))
        rs = ctx.send_many(script)
        prev = 0
        for f, r in zip(script, rs):
            if r.kind == "P":
                continue
            fid = is_validating(f, cookies)
            if fid is not None:
                validated[fid] = cookies[fid]
            want = len(validated)
            q = pkt.parse(f)
            if "proto" in q or q.get("etype") == pkt.ET_ARP:
                ctx.nontrivial(f)
            if r.table != want:
                coll = len(set(validated.values())) == r.table and len(set(validated.values())) < len(validated)
                key = "state_missing:equal_cookies_on_distinct_flows" if coll else ("state_created" if r.table > want else "state_missing")
                ctx.violation(key, "after %s the table holds %d entries, the model (flows that presented their cookie) says %d" % (
                    pkt.summary(f), r.table, want), observed=r.table, expected=want)
                break
            if r.table - prev not in (0, 1):
                ctx.violation("state_jump", "table size jumped from %d to %d on one frame" % (prev, r.table), observed=r.table)
            prev = r.table
        # "leave the connection table unchanged" is about the entries' content too: control segments (with or without
        # payload, acknowledging anything) on the validated flows' own tuples, flow-less ICMP and UDP must leave every
        # control block as it is (identified protocol, matcher state, parser kind - dumped through the hook)
        if validated and rs and rs[-1].kind != "P" and rng.random() < 0.5:
            d1 = ctx.driver().dump()
            ctl = []
            for (e, sp, dp, ck) in flows:
                if (e.cip, e.sip, sp, dp) not in validated:
                    continue
                for fl in rng.sample([SYN, SYN | 0x40, SYN | PSH, RST, ACK, FIN | ACK, RST | ACK, FIN, 0, SYN | ACK], 4):
                    ctl.append(e.tcp(sp, dp, rng.getrandbits(32), rng.choice([0, (ck + 1) & 0xFFFFFFFF, rng.getrandbits(32)]), fl,
                                     rng.choice([b"", b"", b"\r\n", b"GET / HTTP/1.1\r\n"])))
            ctl += [f for _n, f in rng.sample(gen.icmp_noise(rng, cfg), 6)]
            ctl += [gen.endp(rng, cfg, rng.random() < 0.5).udp(gen.rnd_port(rng), gen.rnd_port(rng), u) for _n, u, _t in rng.sample(gen.app_requests(rng), 3)]
            rng.shuffle(ctl)
            ctx.send_many(ctl)
            d2 = ctx.driver().dump()
            ctx.stats["dump_comparisons"] += 1
            if d1 != d2:
                diff = sorted(set(d1.items()) ^ set(d2.items()))[:4]
                ctx.violation("state_changed", "control / flow-less traffic changed the content of the connection table: %s" % (
                    ", ".join("cookie %08x -> %s" % (c, v) for c, v in diff)), observed=repr(diff), expected="identical table dump")
        ctx.stats["model_scripts"] += 1
        ctx.stats["model_validations"] += len(validated)


def flood_phase(ctx, cfg, n):
    rng = ctx.rng
    ctx.case(cfg, reset=True, record=False)
    d = ctx.driver()
    # warm-up: initialise lazily built automata / buffers, validate a few flows
    warm = []
    flows = []
    for name, u, t in gen.app_requests(rng):
        for v6 in (False, True):
            e = gen.endp(rng, cfg, v6)
            ctx.send(e.udp(gen.rnd_port(rng), gen.rnd_port(rng), u))
            sp, dp = gen.rnd_port(rng), gen.rnd_port(rng)
            r = ctx.send(e.tcp(sp, dp, 1, 0, SYN))
            if r.kind == "R":
                ck = pkt.parse(r.reply).seq
                ctx.send(e.tcp(sp, dp, 2, (ck + 1) & 0xFFFFFFFF, PSH | ACK, t))
            # cookie known but never presented: the near-miss acknowledgement numbers of the flood go to these flows
            sp2, dp2 = gen.rnd_port(rng), gen.rnd_port(rng)
            r = ctx.send(e.tcp(sp2, dp2, 1, 0, SYN))
            if r.kind == "R" and (sp2, dp2) != (sp, dp):
                flows.append((e, sp2, dp2, pkt.parse(r.reply).seq))
    ctx.send_many(unvalidated_frames(rng, cfg, 2000, flows))
    t0 = ctx.send(gen.endp(rng, cfg, False).echo(1, 1, b"t")).table
    h0, a0 = d.mem()
    sent = 0
    grew = None
    while sent < n:
        batch = unvalidated_frames(rng, cfg, min(5000, n - sent), flows)
        rs = ctx.send_many(batch)
        for f, r in zip(batch, rs):
            if r.kind != "P" and r.table != t0 and grew is None:
                grew = (f, r.table)
        for f in batch[::50]:
            ctx.nontrivial(f)
        sent += len(batch)
    h1, a1 = d.mem()
    ctx.stats["flood_frames"] += sent
    ctx.extra.setdefault("heap_delta_bytes", []).append(h1 - h0)
    if grew is not None:
        ctx.violation("state_created", "unvalidated flood frame changed the table size from %d to %d: %s" % (t0, grew[1], pkt.summary(grew[0])),
                      observed=grew[1], expected=t0, frames=[grew[0]])
    if abs(h1 - h0) > HEAP_TOL:
        ctx.violation("heap_growth", "live heap moved by %d bytes over %d unvalidated frames (logger %s level %d); table size %d -> %d" % (
            h1 - h0, sent, cfg.logger, cfg.level, t0, rs[-1].table), observed=h1 - h0, expected="|delta| <= %d" % HEAP_TOL, frames=[])


def reproduce_known(ctx):
    for ent in findings.known(PROP):
        w = ent.get("witness")
        if not w or ent["key"] != KNOWN_COLLISION:
            continue
        cfg = Config(pkt.mac(w["mac"]), None, None, (int(w["key"][0], 16), int(w["key"][1], 16)), "n", 0)
        ctx.case(cfg)
        A, B = w["A"], w["B"]
        n = 0
        for X, m in ((A, "02:00:00:00:00:0a"), (B, "02:00:00:00:00:0b")):
            e = pkt.Endp(pkt.mac(m), cfg.mac, pkt.ip(X[0]), pkt.ip(X[2]))
            r = ctx.send(e.tcp(X[1], X[3], 100, 0, SYN))
            if r.kind != "R":
                return
            ck = pkt.parse(r.reply).seq
            r = ctx.send(e.tcp(X[1], X[3], 101, (ck + 1) & 0xFFFFFFFF, PSH | ACK, b"x"))
            n += 1
            if r.table != n:
                ctx.violation(KNOWN_COLLISION, "two flows with equal cookie both validated, table holds %d entries instead of %d" % (r.table, n),
                              observed=r.table, expected=n)


def boundary_cookies(ctx):
    """Flows whose cookie is 0 / 0xFFFFFFFF (witnesses.json, re-validated by a probe): wrong acks around the wrap must not
    create state, the valid one (cookie+1 mod 2^32) must create exactly one entry."""
    import json
    import os
    from .. import build
    try:
        ws = json.load(open(os.path.join(build.VERIF, "witnesses.json")))["boundary_cookies"]
    except Exception:
        return
    for w in ws:
        cfg = Config(pkt.mac("c0:ff:ee:c0:ff:ee"), None, None, (int(w["key"][0], 16), int(w["key"][1], 16)), "n", 0)
        ctx.case(cfg, reset=True)
        e = pkt.Endp(pkt.mac("02:00:00:00:00:77"), cfg.mac, pkt.ip(w["src"]), pkt.ip(w["dst"]))
        sp, dp, want = w["sport"], w["dport"], int(w["cookie"], 16)
        r = ctx.send(e.tcp(sp, dp, 9, 0, SYN))
        if r.kind != "R" or pkt.parse(r.reply).get("seq") != want:
            ctx.stats["boundary_witness_stale"] += 1
            continue
        good = (want + 1) & 0xFFFFFFFF
        for bad in (0, 1, 2, 0xFFFFFFFF, 0xFFFFFFFE):
            if bad == good:
                continue
            r = ctx.send(e.tcp(sp, dp, 10, bad, PSH | ACK, b"x"))
            if r.kind != "P" and r.table != 0:
                ctx.violation("state_created:boundary", "flow with cookie %08x: data with ack=%d (valid is %d) created connection state" % (want, bad, good),
                              observed=r.table, expected=0)
                break
        r = ctx.send(e.tcp(sp, dp, 10, good, PSH | ACK, b"x"))
        ctx.nontrivial("boundary", want)
        if r.kind != "P" and r.table != 1:
            ctx.violation("state_missing:boundary", "flow with cookie %08x: data with the valid ack=%d did not create its table entry (table %d)" % (want, good, r.table),
                          observed=r.table, expected=1)


def many_flows(ctx, n):
    """|table| = number of validated flows, also far beyond 2^16 of them."""
    from ..applab import AppLab
    cfg = Config(pkt.mac("c0:ff:ee:c0:ff:ee"), None, None, (ctx.rng.getrandbits(64), ctx.rng.getrandbits(64)), "n", 0)
    ctx.case(cfg)
    t = AppLab(ctx, cfg).crowd(n)
    ctx.stats["many_flows"] += n
    ctx.nontrivial("many_flows", n)
    # equal cookies among n random tuples are expected (birthday): at most about n^2 / 2^33 of them
    slack = int(n * n / 2 ** 33) + 8
    if not n - slack <= t <= n:
        ctx.violation("state_missing:many_flows", "%d flows presented their cookie but the table holds %d entries (birthday slack %d)" % (n, t, slack),
                      observed=t, expected=n, frames=[])


def shard(ctx, budget_s, flood_n):
    rng = ctx.rng
    deadline = time.time() + budget_s
    if ctx.shard == 0:
        reproduce_known(ctx)
    if ctx.shard == 1 % ctx.nshards:
        boundary_cookies(ctx)
    if ctx.shard == 2 % ctx.nshards:
        many_flows(ctx, 66000 if ctx.tier == "quick" else 300000)
    combos = [("n", 0), ("c", 0), ("l", 0), ("n", 5), ("c", 5), ("l", 5)]
    lg, lv = combos[ctx.shard % len(combos)]
    cfg = gen.rnd_config(rng, deny=rng.random() < 0.3, logger=lg, level=lv)
    flood_phase(ctx, cfg, flood_n)
    n = 0
    while time.time() < deadline or n == 0:
        cfg = gen.rnd_config(rng, deny=False, logger="n", level=0)
        model_phase(ctx, cfg, 10)
        n += 1


def run(tier, seed):
    v = core.Verdict(PROP, tier, seed)
    v.merge(core.run_shards(shard, PROP, tier, seed, budget_s=22 if tier == "quick" else 240, flood_n=100000 if tier == "quick" else 2000000))
    return v.finish(RULE, floor=1000, assumptions=ASSUME)
