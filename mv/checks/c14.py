"""C14 - DNS: IN/A queries get a faithful, parseable answer with the queried address."""
import struct
import time

from .. import core, gen, pkt, sigref
from ..applab import AppLab
from ..protos import dns

PROP = "C14"
RULE = ("queries over UDP/IPv4 with random and boundary ids, arbitrary flag words with QR=0 (all opcodes, RD, Z, rcode "
        "bits), 0..40 IN/A questions, label layouts incl. empty name, 63-byte labels, 255-byte names, arbitrary non-NUL "
        "label bytes, random destination addresses and ports, self-IP list absent/present; each response is decoded by an "
        "independent DNS codec and compared field by field (id, opcode, RD, QR, counts, echoed questions, one IN/A answer "
        "per question owned by the queried name with RDATA = destination address, nothing trailing). Negative: a question "
        "that is not IN/A anywhere in the list, and every truncation length of sampled queries, must stay unanswered. Cases "
        "whose payload completes a signature (either matcher) are skipped and counted. Non-trivial = every judged case; "
        "distinct = distinct (class, question count, name layout hash, flags).")
ASSUME = ["only UDP over IPv4 is constrained by the statement; names are sequences of labels without NUL bytes, at most 255 bytes encoded",
          "payloads that also complete a signature of another protocol (per reference or compiled matcher) are outside the precondition"]


def shard(ctx, budget_s):
    rng = ctx.rng
    deadline = time.time() + budget_s
    n = 0
    while time.time() < deadline or n == 0:
        cfg = gen.rnd_config(rng, deny=False, logger=rng.choice("nnncl"), level=rng.choice([0, 0, 2, 3, 4, 5]))
        ctx.case(cfg)
        lab = AppLab(ctx, cfg)
        for _ in range(60):
            nq = rng.choice([None, None, None, 0, 1, 2, 5, 17, 40])
            q, id_, flags, qs = dns.gen_query(rng, nq=nq)
            if len(q) > 1400:
                continue
            # "not itself completing another protocol's signature" is decided by the published signatures alone: a
            # conforming query that completes none of them is DNS's to answer, whatever the compiled matcher makes of it
            # (none of the recorded matcher divergences concerns a message that is a complete IN/A query)
            if sigref.identify(q, True) != sigref.NOMATCH:
                ctx.stats["skipped_completes_signature"] += 1
                continue
            a = lab.ask(q, "udp", v6=False)
            errs = dns.check_response(a.rep, id_, flags, qs, a.e.sip)
            ctx.stats["positive"] += 1
            ctx.nontrivial("pos", len(qs), flags, q[12:])
            for e in errs:
                ctx.violation("response:" + e.split(" ")[0], "%s; query id=%04x flags=%04x with %d question(s)" % (e, id_, flags, len(qs)),
                              observed=(a.rep or b"").hex()[:600], expected="faithful IN/A answer")
            # non-IN/A question somewhere
            if qs:
                k = rng.randrange(len(qs))
                t, c = rng.choice([(16, 1), (28, 1), (255, 1), (1, 3), (1, 255), (0, 0), (2, 1), (1, 0), (0x0101, 1), (1, 0x0101), (1, 0x8001), (0x8001, 1),
                                   (1, 0x0100), (0x0100, 1), (1, rng.randrange(2, 65536)), (rng.randrange(2, 65536), 1), (rng.getrandbits(16) | 2, rng.getrandbits(16) | 2)])
                bad = list(qs)
                bad[k] = qs[k][:-4] + struct.pack("!HH", t, c)
                m = dns.header(id_, flags, len(bad)) + b"".join(bad)
                if lab.identified(m, "udp") == sigref.NOMATCH:
                    a = lab.ask(m, "udp", v6=False)
                    ctx.stats["negative_not_in_a"] += 1
                    ctx.nontrivial("neg_type", len(qs), k, t, c)
                    if a.rep is not None:
                        ctx.violation("answered:not_in_a", "query whose question #%d has type/class %d/%d was answered" % (k, t, c),
                                      observed=a.rep.hex()[:400], expected="silence")
            # every truncation length of some queries
            if rng.random() < 0.15 and qs and len(q) < 200:
                e = gen.endp(rng, cfg, False)
                sp, dp = gen.rnd_port(rng), gen.rnd_port(rng)
                cuts = [q[:i] for i in range(len(q))]
                cuts = [c for c in cuts if lab.identified(c, "udp") == sigref.NOMATCH]
                rs = ctx.send_many([e.udp(sp, dp, c) for c in cuts])
                for c, r in zip(cuts, rs):
                    ctx.stats["negative_truncated"] += 1
                    ctx.nontrivial("neg_trunc", len(c), len(q), q[:12])
                    if r.kind == "R":
                        ctx.violation("answered:truncated", "query truncated to %d of %d bytes was answered" % (len(c), len(q)), observed=r.reply.hex()[:400],
                                      expected="silence", frames=[e.udp(sp, dp, c)])
            if ctx.shard == 0 and len(ctx.samples) < 3:
                ctx.sample({"query": q.hex()[:200], "questions": len(qs), "flags": "%04x" % flags})
        n += 1


def run(tier, seed):
    v = core.Verdict(PROP, tier, seed)
    v.merge(core.run_shards(shard, PROP, tier, seed, budget_s=20 if tier == "quick" else 200))
    return v.finish(RULE, floor=500, assumptions=ASSUME)
