"""C06 - SYN policy mimics Linux; SYN-ACK acks seq+1 with a deterministic cookie.

Policy oracle: closed form over the 9 flag bits.  Cookie oracle: metamorphic (no hash function is imposed)."""
import time

from .. import core, gen, pkt
from ..driver import Config
from ..flow import Flow
from ..pkt import SYN, ACK, PSH, FIN, RST, URG, ECE, CWR, NS

PROP = "C06"
RULE = ("exhaustive grid 512 flag values x {no payload, payload} x {IPv4, IPv6} x seq in {0, 1, 0x7fffffff, 0xfffffffe, "
        "0xffffffff, random} on random tuples/keys (random and boundary ports), each judged by the closed-form policy "
        "(allowed iff flags minus SYN is a subset of {PSH,URG,CWR,ECE} without both CWR and ECE; then flags=SYN|ACK exactly, "
        "ack=seq+1 mod 2^32, no payload; otherwise never SYN|ACK); the same grid is re-run after the tuple's flow has been "
        "validated and fed data, and after floods; logger and verbosity drawn at random per round (a responder that panics inside a log statement answers no SYN). Cookie: metamorphic pairs - same (src,dst,sport,dport,key) under different "
        "seq/flags/payload/MAC/TTL/history/table-reset must give the same cookie; changing exactly one of src, dst, sport, "
        "dport, IP-version embedding, key half 0, key half 1 must change it (at most ceil(N/2^32)+1 coincidences tolerated). "
        "Non-trivial = SYN-bearing segments judged / perturbation pairs compared; distinct = distinct (flags, payload?, "
        "version, seq class, history class) plus distinct perturbation pairs.")
ASSUME = ["no particular keyed hash is required of the cookie, only determinism and sensitivity to each input",
          "cookie coincidences between perturbed tuples are tolerated up to ceil(N/2^32)+1 per run"]

DECOR = PSH | URG | CWR | ECE


def allowed(f):
    return bool(f & SYN) and (f & ~(SYN | DECOR)) == 0 and not (f & CWR and f & ECE)


SEQS = [0, 1, 0x7FFFFFFF, 0xFFFFFFFE, 0xFFFFFFFF, None]


def judge_syn(ctx, f, r, flags, seq, hist):
    if allowed(flags):
        if r.kind != "R":
            ctx.violation("syn_unanswered:%03x" % flags, "allowed SYN (flags %03x, %s) not answered: %s" % (flags, hist, pkt.summary(f)),
                          observed=r.kind, expected="SYN|ACK", frames=[f])
            return None
        a = pkt.parse(r.reply)
        errs = []
        if a.get("flags") != (SYN | ACK):
            errs.append("flags reply flags %03x are not exactly SYN|ACK" % a.get("flags", -1))
        if a.get("ack") != (seq + 1) & 0xFFFFFFFF:
            errs.append("ack %s != seq+1 = %d" % (a.get("ack"), (seq + 1) & 0xFFFFFFFF))
        if a.get("data"):
            errs.append("payload SYN-ACK carries %d payload bytes" % len(a.data))
        for e in errs:
            ctx.violation("synack_" + e.split(" ")[0], "%s; request flags %03x seq %d (%s)" % (e, flags, seq, hist),
                          observed=r.reply.hex(), expected="SYN|ACK ack=seq+1 no payload", frames=[f])
        return a.get("seq")
    if r.kind == "R":
        a = pkt.parse(r.reply)
        if a.get("flags") == (SYN | ACK):
            ctx.violation("synack_to_forbidden:%03x" % flags, "SYN with forbidden flag combination %03x answered with SYN|ACK (%s)" % (flags, hist),
                          observed=r.reply.hex(), expected="anything but SYN|ACK", frames=[f])
    return None


def grid(ctx, cfg, e, sp, dp, hist):
    rng = ctx.rng
    fs, meta = [], []
    for flags in range(512):
        if not flags & SYN and rng.random() < 0.9:
            continue    # non-SYN segments are C07's business; keep a few as noise
        for pl in (b"", b"payload!"):
            for s in SEQS:
                seq = rng.getrandbits(32) if s is None else s
                fs.append(e.tcp(sp, dp, seq, rng.getrandbits(32), flags, pl))
                meta.append((flags, seq, bool(pl), "rnd" if s is None else "%x" % s))
    cookies = set()
    rs = ctx.send_many(fs)
    for f, r, (flags, seq, haspl, sc) in zip(fs, rs, meta):
        if not flags & SYN:
            continue
        c = judge_syn(ctx, f, r, flags, seq, hist)
        ctx.stats["syn_allowed" if allowed(flags) else "syn_forbidden"] += 1
        ctx.nontrivial("grid", flags, haspl, e.v6, sc, hist)
        if c is not None:
            cookies.add(c)
    if len(cookies) > 1:
        ctx.violation("cookie_unstable", "one 4-tuple/key produced %d different cookies across flags/seq/payload (%s)" % (len(cookies), hist),
                      observed=sorted(cookies)[:4], expected="one cookie", frames=fs[:2])
    return cookies.pop() if len(cookies) == 1 else None


def cookie_of(ctx, e, sp, dp, **kw):
    f = e.tcp(sp, dp, kw.pop("seq", ctx.rng.getrandbits(32)), 0, kw.pop("flags", SYN), kw.pop("payload", b""))
    r = ctx.send(f)
    if r.kind != "R":
        return None
    a = pkt.parse(r.reply)
    return a.seq if a.get("flags") == (SYN | ACK) else None


def perturbations(ctx, n):
    """Metamorphic cookie pairs."""
    rng = ctx.rng
    coincidences = 0
    done = 0
    while done < n:
        key = gen.rnd_key(rng)
        cfg = Config(gen.rnd_mac(rng), None, None, key, "n", 0)
        ctx.case(cfg)
        for _ in range(40):
            v6 = rng.random() < 0.5
            e = gen.endp(rng, cfg, v6, own_src=0.03)
            sp, dp = gen.rnd_port(rng), gen.rnd_port(rng)
            c0 = cookie_of(ctx, e, sp, dp)
            if c0 is None:
                ctx.violation("syn_unanswered:plain", "plain SYN not answered", frames=list(ctx.history[-1:]))
                continue
            # --- a byte-identical retransmission of the SYN gets the identical SYN-ACK
            fsyn = e.tcp(sp, dp, 77, 0, SYN, win=1024)
            ra, rb, rc = ctx.send(fsyn), ctx.send(fsyn), ctx.send(fsyn)
            ctx.stats["identical_retransmissions"] += 1
            if not (ra.kind == rb.kind == rc.kind == "R") or not (ra.reply == rb.reply == rc.reply):
                ctx.violation("retransmission", "the same SYN frame sent three times in a row is answered %s / %s / %s" % (
                    ra.kind, rb.kind if rb.kind != "R" or rb.reply == ra.reply else "R(different)", rc.kind if rc.kind != "R" or rc.reply == ra.reply else "R(different)"),
                    observed=[x.reply.hex() if x.reply else x.kind for x in (ra, rb, rc)], expected="three identical SYN-ACKs")
            # --- invariance
            e2 = pkt.Endp(gen.rnd_mac(rng), cfg.mac, e.cip, e.sip, ttl=rng.randrange(1, 256))
            same = [cookie_of(ctx, e, sp, dp), cookie_of(ctx, e2, sp, dp, flags=SYN | rng.choice([0, PSH, URG, ECE, CWR])),
                    cookie_of(ctx, e, sp, dp, seq=rng.choice([0, 0xFFFFFFFF]), payload=b"x" * rng.randrange(0, 20))]
            for c in same:
                ctx.nontrivial("same", done, len(same), c0)
                if c != c0:
                    ctx.violation("cookie_unstable", "same (src,dst,sport,dport,key) gave cookies %r and %r" % (c0, c),
                                  observed=[c0, c], expected="equal", frames=list(ctx.history[-4:]))
            # --- sensitivity: exactly one input changed
            def flipip(a):
                i = rng.randrange(len(a) * 8)
                return bytes(x ^ (1 << (i % 8)) if j == i // 8 else x for j, x in enumerate(a))
            variants = [("src", pkt.Endp(e.cmac, e.smac, flipip(e.cip), e.sip), sp, dp),
                        ("dst", pkt.Endp(e.cmac, e.smac, e.cip, flipip(e.sip)), sp, dp),
                        ("sport", e, sp ^ (1 << rng.randrange(16)), dp),
                        ("dport", e, sp, dp ^ (1 << rng.randrange(16))),
                        ("swap_ports", e, dp, sp) if sp != dp else ("sport", e, (sp + 1) & 0xFFFF, dp),
                        ("swap_addrs", pkt.Endp(e.cmac, e.smac, e.sip, e.cip), sp, dp) if e.cip != e.sip else ("sport", e, (sp + 2) & 0xFFFF, dp)]
            if not v6:
                m = lambda a: b"\0" * 10 + b"\xff\xff" + a
                c = lambda a: b"\0" * 12 + a
                variants.append(("version", pkt.Endp(e.cmac, e.smac, m(e.cip), m(e.sip)), sp, dp))
                variants.append(("version_compat", pkt.Endp(e.cmac, e.smac, c(e.cip), c(e.sip)), sp, dp))
            elif e.cip[:12] == bytes(12) or e.cip[:12] == b"\0" * 10 + b"\xff\xff":
                # mapped <-> compatible form of the same embedded IPv4 address is a different IPv6 address
                flip = lambda a: (b"\0" * 10 + b"\xff\xff" + a[12:]) if a[:12] == bytes(12) else (bytes(12) + a[12:])
                variants.append(("mapped_vs_compat", pkt.Endp(e.cmac, e.smac, flip(e.cip), e.sip), sp, dp))
            for what, ev, s, d in variants:
                c = cookie_of(ctx, ev, s, d)
                done += 1
                ctx.nontrivial("perturb", what, done, c0)
                ctx.stats["perturb_" + what] += 1
                if c is not None and c == c0:
                    coincidences += 1
                    ctx.extra.setdefault("coincidences", []).append({"what": what, "cookie": c0, "frames": [x.hex() for x in ctx.history[-2:]]})
            # key halves
            for half in (0, 1):
                k2 = list(key)
                k2[half] ^= 1 << rng.randrange(64)
                ctx.case(cfg.with_(key=tuple(k2)), reset=False)
                c = cookie_of(ctx, e, sp, dp)
                ctx.case(cfg, reset=False)
                done += 1
                ctx.nontrivial("perturb", "key%d" % half, done, c0)
                ctx.stats["perturb_key%d" % half] += 1
                if c is not None and c == c0:
                    coincidences += 1
                    ctx.extra.setdefault("coincidences", []).append({"what": "key%d" % half, "cookie": c0})
            # table reset / history independence
            if rng.random() < 0.2:
                ctx.reset_table()
                c = cookie_of(ctx, e, sp, dp)
                if c != c0:
                    ctx.violation("cookie_unstable", "cookie changed after a table reset: %r -> %r" % (c0, c), frames=list(ctx.history[-1:]))
    ctx.extra["perturbation_pairs"] = done
    ctx.extra["cookie_coincidences"] = coincidences
    return done, coincidences


def across_processes(ctx, n):
    """The cookie is a function of (key, 4-tuple) alone: a second responder process, started now, has to produce the
    same sequence numbers - for random keys and for the special ones ([0, 0] is what the shipped binary runs with)."""
    from ..driver import Driver
    rng = ctx.rng
    d2 = Driver(ctx.bin)
    try:
        for i in range(n):
            key = rng.choice([(0, 0), (0, 0), (0, 1), (1, 0), (0xFFFFFFFFFFFFFFFF, 0xFFFFFFFFFFFFFFFF), gen.rnd_key(rng), gen.rnd_key(rng)])
            cfg = gen.rnd_config(rng, deny=False, selfips=False, logger="n", level=0).with_(key=key)
            ctx.case(cfg, record=False)
            d2.cfg(cfg)
            for _ in range(8):
                e = gen.endp(rng, cfg, rng.random() < 0.5)
                f = e.tcp(gen.rnd_port(rng), gen.rnd_port(rng), rng.getrandbits(32), 0, SYN)
                r1, r2 = ctx.send(f), d2.frame(f)
                ctx.stats["cross_process_pairs"] += 1
                ctx.nontrivial("xproc", key, f[26:])
                a1 = pkt.parse(r1.reply) if r1.kind == "R" else {}
                a2 = pkt.parse(r2.reply) if r2.kind == "R" else {}
                if a1.get("seq") != a2.get("seq") or a1.get("flags") != a2.get("flags"):
                    ctx.violation("cookie_differs_between_processes", "the same SYN under the same key %x:%x is answered with sequence number %s by one responder process and %s by another" % (
                        key[0], key[1], a1.get("seq"), a2.get("seq")), observed=[a1.get("seq"), a2.get("seq")], expected="equal", frames=[f])
                    return
    finally:
        d2.close()


def shard(ctx, budget_s, npert):
    rng = ctx.rng
    deadline = time.time() + budget_s
    across_processes(ctx, 6 if ctx.tier == "quick" else 60)
    n = 0
    while time.time() < deadline or n == 0:
        cfg = gen.rnd_config(rng, deny=False, logger=rng.choice("nnnncl"), level=rng.choice([0, 0, 2, 3, 4, 5]))
        ctx.case(cfg, record=False)
        v6 = (n + ctx.shard) % 2 == 1
        e = gen.endp(rng, cfg, v6, own_src=0.03)
        sp, dp = gen.rnd_port(rng), gen.rnd_port(rng)
        c1 = grid(ctx, cfg, e, sp, dp, "fresh")
        # validate the flow and feed it data, then the grid must behave identically, with the same cookie
        if c1 is not None:
            ctx.case(reset=False)
            fl = Flow(ctx, e, sp, dp)
            fl.cookie, fl.ack = c1, (c1 + 1) & 0xFFFFFFFF
            fl.data(b"GET / HTTP/1.1\r\n")
            fl.data(b"\r\n")
            ctx.case(reset=False, record=False)
            flood = [gen.endp(rng, cfg, rng.random() < 0.5).tcp(gen.rnd_port(rng), gen.rnd_port(rng), rng.getrandbits(32), rng.getrandbits(32),
                                                               rng.randrange(512), b"") for _ in range(300)]
            ctx.send_many(flood)
            c2 = grid(ctx, cfg, e, sp, dp, "after_validated_data_and_flood")
            if c2 is not None and c2 != c1:
                ctx.violation("cookie_unstable", "cookie of a tuple changed after its flow was validated: %r -> %r" % (c1, c2),
                              observed=[c1, c2], expected="equal")
        if len(ctx.samples) < 2:
            ctx.sample({"tuple": [pkt.ip_s(e.cip), sp, pkt.ip_s(e.sip), dp], "key": ["%x" % k for k in cfg.key], "cookie": c1})
        n += 1
    ctx.stats["grids"] += 2 * n
    pairs, co = perturbations(ctx, npert)
    return


def run(tier, seed):
    v = core.Verdict(PROP, tier, seed)
    profiles = ("debug",) if tier == "quick" else ("debug", "release")
    pairs = co = 0
    for p in profiles:
        res = core.run_shards(shard, PROP, tier, seed, profile=p, budget_s=12 if tier == "quick" else 120,
                              npert=3000 if tier == "quick" else 40000)
        v.merge(res)
    pairs = v.extra.get("perturbation_pairs", 0)
    co = v.extra.get("cookie_coincidences", 0)
    budget = -(-pairs // 2 ** 32) + 1
    if co > budget:
        by = {}
        for c in v.extra.get("coincidences", []):
            by.setdefault(c["what"], []).append(c)
        for what, cs in by.items():
            v.violations.append({"property": PROP, "key": "cookie_insensitive:" + what,
                                 "what": "changing only %s left the cookie unchanged in %d sampled pairs (run total %d of %d, budget %d)" % (what, len(cs), co, pairs, budget),
                                 "frames": [f for c in cs[:3] for f in c.get("frames", [])], "config": None, "observed": co,
                                 "expected": "<= %d coincidences" % budget, "seed": seed, "tier": tier})
    return v.finish(RULE, floor=500, assumptions=ASSUME)
