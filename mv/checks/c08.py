"""C08 - flows do not interfere: a reply depends only on the frame and its own flow.

Metamorphic oracle: the replies to a scripted target flow F (and to the other traffic H) must be the same when F and H
run alone on a fresh table and when they are randomly interleaved (wall-clock fields masked)."""
import struct
import time

from .. import core, gen, pkt, findings, canon
from ..driver import Config
from ..flow import cut
from ..pkt import SYN, ACK, PSH, FIN, RST
from ..protos import http, rpc

PROP = "C08"
RULE = ("random triples (target flow F = SYN + application request in 1-4 segments + FIN|ACK; other traffic H = 1-5 other TCP "
        "flows incl. tuples differing from F in exactly one field, validated and mid-request (HTTP, RPC, STUN, SSH, SMB), "
        "the IPv4-mapped twin of F's endpoints, SYN/FIN|ACK/RST/bare-ACK segments on F's own tuple, ICMP / ICMPv6 error messages quoting F's segments, rejected data segments on F's tuple before F is validated, UDP "
        "requests (incl. pairs of datagrams from two clients to one service that differ in one bit of their leading bytes), ARP, ICMP echo, router advertisements / solicitations / redirects / listener queries / ICMP errors about other flows; a random order-preserving interleaving). Each frame's canonical reply in the interleaving is "
        "compared with its reply when F (resp. H) runs alone on a fresh table. One shard additionally runs 14 multi-segment sessions alone and in a crowd (66 000 other connections validated before the session starts, 66 000 more between its first and second segment). Non-trivial = interleavings where an accepted "
        "data segment of another flow falls between two segments of F; distinct = distinct abstract interleavings (kinds, "
        "flow indices, order).")
ASSUME = ["'alone' means after a reset of the connection table; for the one-bit twin datagrams and for 8 % of the target flows it means a responder process started for that frame / flow only",
          "besides the canonical reply, the IPv4 identification / DF / TOS (IPv6: version, traffic class, flow label) of the reply are compared",
          "H never contains data segments that would be *accepted* on F's own flow (those legitimately change F's stream)",
          "wall-clock fields (HTTP Date, SMB times) are masked structurally before comparison; checksums are not compared"]
KNOWN_COLLISION = "cookie-collision"


def probe_cookie(ctx, e, sp, dp):
    r = ctx.send(e.tcp(sp, dp, 7, 0, SYN))
    if r.kind != "R":
        return None
    a = pkt.parse(r.reply)
    return a.seq if a.get("flags") == (SYN | ACK) else None


def app_stream(rng):
    k = rng.randrange(8)
    if k == 7 or k == 6 and rng.random() < 0.5:
        # the portmapper's registry procedures with proper arguments (SET / UNSET / GETPORT / DUMP): a responder that kept
        # a registry would let one client change what the next one is told
        c = rpc.gen_call(rng, prog=rpc.PMAP, vers=rng.choice([2, 2, 3, 4]), proc=rng.choice([1, 1, 2, 3, 4, 4]), maxauth=8)
        m = bytearray(c["msg"])
        m[0] = rng.choice([0x01, 0x7A, 0x99, 0xFE])
        return "rpc_pmap", rpc.record(bytes(m) if c["proc"] != 4 else bytes(m[:c["trigger"] + 1]))
    if k == 0:
        return "http", http.gen(rng)
    if k == 1:
        return "rpc", rpc.record(rpc.gen_call(rng)["msg"])
    apps = gen.app_requests(rng)
    n, u, t = rng.choice(apps)
    return n, t


def flow_frames(rng, e, sp, dp, cookie, complete=True, alt_ack=None):
    """(frames, kinds) of a client: SYN, data segments (ack = cookie+1), optional FIN|ACK.
    alt_ack: an acknowledgement number that later segments of this (by then validated) flow sometimes carry instead of
    their own - another connection's cookie + 1: a validated flow may acknowledge anything, and whatever it acknowledges
    names nobody else's connection."""
    name, stream = app_stream(rng)
    segs = cut(stream, sorted(rng.randrange(0, len(stream) + 1) for _ in range(rng.choice([0, 1, 2, 3]))))
    if rng.random() < 0.12:
        # a connection that starts with bytes completing no signature (the matcher gives up) and then sends a request in a
        # segment of its own: never answered - whatever other connections do in between
        junk = rng.choice([b"OPTIONS sip:nm SIP/2.0\r\nVia: SIP/2.0/TCP nm;branch=foo\r\n", bytes(rng.randrange(1, 256) | 0x80 for _ in range(rng.randrange(9, 60))), b"\x16\x03\x01\x00\xa5\x01\x00\x00\xa1\x03\x03" + bytes(20)])
        name, segs = "junk_then_" + name, [junk] + [x for x in segs if x]
    if not complete and len(segs) > 1:
        segs = segs[:rng.randrange(1, len(segs))]     # mid-request
    isn = rng.getrandbits(32)
    fs = [e.tcp(sp, dp, isn, 0, SYN)]
    kinds = ["syn"]
    if rng.random() < 0.25:
        fs.append(fs[0])             # byte-identical retransmission of the SYN
        kinds.append("syn")
    seq = (isn + 1) & 0xFFFFFFFF
    for i, s in enumerate(segs):
        ackn = (cookie + 1) & 0xFFFFFFFF
        if i > 0 and alt_ack is not None and rng.random() < 0.3:
            ackn = alt_ack
        fs.append(e.tcp(sp, dp, seq, ackn, PSH | ACK, s))
        kinds.append("data")
        seq = (seq + len(s)) & 0xFFFFFFFF
    if complete and rng.random() < 0.5:
        fs.append(e.tcp(sp, dp, seq, (cookie + 1) & 0xFFFFFFFF, FIN | ACK))
        kinds.append("fin")
        if rng.random() < 0.3:
            fs.append(fs[-1])        # ... and of the FIN|ACK
            kinds.append("fin")
    return fs, kinds, name


def one_field_relatives(rng, e, sp, dp, cfg):
    out = []
    out.append((e, sp ^ (1 << rng.randrange(16)), dp))
    out.append((e, sp, dp ^ (1 << rng.randrange(16))))
    c2 = bytearray(e.cip)
    c2[rng.randrange(len(c2))] ^= 1 << rng.randrange(8)
    out.append((pkt.Endp(e.cmac, e.smac, bytes(c2), e.sip), sp, dp))
    out.append((pkt.Endp(gen.rnd_mac(rng), e.smac, e.cip, e.sip), (sp + 0x100) & 0xFFFF, dp))
    out.append((gen.endp(rng, cfg, not e.v6), sp, dp))
    # the same endpoints written in the other address family (IPv4-mapped IPv6 twin of an IPv4 flow, and back)
    if not e.v6 and not cfg.selfips:
        m = lambda a: b"\0" * 10 + b"\xff\xff" + a
        out.append((pkt.Endp(e.cmac, e.smac, m(e.cip), m(e.sip)), sp, dp))
        out.append((pkt.Endp(e.cmac, e.smac, bytes(12) + e.cip, bytes(12) + e.sip), sp, dp))     # IPv4-compatible form
    elif e.v6 and e.cip[:12] == b"\0" * 10 + b"\xff\xff" and e.sip[:12] == e.cip[:12] and not cfg.selfips:
        out.append((pkt.Endp(e.cmac, e.smac, e.cip[12:], e.sip[12:]), sp, dp))
    return out


def canon8(reply):
    """canon + the IPv4 header fields a reply could leak cross-flow state through (identification, DF/fragment word, TOS)."""
    c = canon.canon(reply)
    a = pkt.parse(reply)
    if a.get("v") == 4:
        return c + (a.ip_id, a.ip_frag, reply[15])
    if a.get("v") == 6:
        return c + (reply[14:18],)
    return c


def execute(ctx, frames):
    ctx.case(reset=True)
    return [canon8(r.reply) if r.kind == "R" else ("PANIC" if r.kind == "P" else None) for r in ctx.send_many(frames)]


def execute_fresh(ctx, frames):
    """The strongest 'alone': a responder process started for these frames only (a table reset clears the connection
    table - a process that has seen nothing else has no other state either)."""
    from ..driver import Driver
    d2 = Driver(ctx.bin)
    try:
        d2.cfg(ctx.cfg)
        ctx.stats["fresh_process_baselines"] += 1
        return [canon8(r.reply) if r.kind == "R" else ("PANIC" if r.kind == "P" else None) for r in d2.frames(frames)]
    finally:
        d2.close()


def triple(ctx, cfg, forced=None):
    rng = ctx.rng
    if forced:
        (e, sp, dp), others = forced
    else:
        e = gen.endp(rng, cfg, rng.random() < 0.5)
        sp, dp = gen.rnd_port(rng), gen.rnd_port(rng)
        rel = one_field_relatives(rng, e, sp, dp, cfg)
        rng.shuffle(rel)
        others = rel[:rng.randrange(1, 4)]
        for _ in range(rng.choice([0, 1, 2])):
            others.append((gen.endp(rng, cfg, rng.random() < 0.5), gen.rnd_port(rng), gen.rnd_port(rng)))
    # learn cookies (then forget everything)
    ctx.case(reset=True)
    ckF = probe_cookie(ctx, e, sp, dp)
    cks = [probe_cookie(ctx, oe, osp, odp) for oe, osp, odp in others]
    if ckF is None or any(c is None for c in cks):
        ctx.inconclusive += 1
        return
    F, Fk, Fname = flow_frames(rng, e, sp, dp, ckF)
    H, Hk, Hflow = [], [], []
    per_flow = []
    for j, ((oe, osp, odp), ck) in enumerate(zip(others, cks)):
        fs, ks, nm = flow_frames(rng, oe, osp, odp, ck, complete=rng.random() < 0.6, alt_ack=(ckF + 1) & 0xFFFFFFFF)
        per_flow.append((fs, ks, j))
    # merge the other flows among themselves, order-preserving
    idx = [0] * len(per_flow)
    while any(idx[j] < len(per_flow[j][0]) for j in range(len(per_flow))):
        j = rng.choice([j for j in range(len(per_flow)) if idx[j] < len(per_flow[j][0])])
        H.append(per_flow[j][0][idx[j]])
        Hk.append("o%d:%s" % (j, per_flow[j][1][idx[j]]))
        idx[j] += 1
    # noise on F's own tuple (never an accepted data segment) and unrelated traffic
    noise = []
    for _ in range(rng.randrange(0, 5)):
        fl = rng.choice([SYN, FIN | ACK, RST, ACK, SYN | PSH, RST | ACK, 0])
        # ... with or without payload (a request fragment, say), acknowledging anything - F's cookie + 1 included: none of
        # these is a data segment, so none may reach F's parser or its control block
        pl = rng.choice([b"", b"", b"GET / HTTP/1.1\r\nHost: a\r\n", b"\r\n", bytes(rng.getrandbits(8) for _x in range(rng.randrange(1, 40)))])
        ackn = rng.choice([rng.getrandbits(32), (ckF + 1) & 0xFFFFFFFF, 0])
        noise.append((e.tcp(sp, dp, rng.getrandbits(32), ackn, fl, pl), "own:%03x%s" % (fl, "+data" if pl else "")))
    # ICMP errors that quote F's own segments (either direction), as a router or the peer's stack would send them
    for _ in range(rng.choice([0, 0, 1, 2])):
        fwd = rng.random() < 0.5
        qs, qd, qsp, qdp = (e.cip, e.sip, sp, dp) if fwd else (e.sip, e.cip, dp, sp)
        quoted_l4 = struct.pack("!HHI", qsp, qdp, rng.getrandbits(32))
        if e.v6:
            quoted = pkt.ip6(qs, qd, 6, quoted_l4 + bytes(12))
            body = bytes(4) + quoted
            noise.append((e.l3(58, pkt.icmp6(e.cip, e.sip, rng.choice([1, 1, 2, 3, 4]), rng.choice([0, 1, 3, 4]), body)), "own:icmp6err"))
        else:
            quoted = pkt.ip4(qs, qd, 6, quoted_l4)
            body = bytes(4) + quoted
            noise.append((e.l3(1, pkt.icmp4(rng.choice([3, 3, 3, 11, 12, 4, 5]), rng.choice([0, 1, 2, 3, 4, 13]), body)), "own:icmp4err"))
    for _ in range(rng.randrange(0, 4)):
        oe = gen.endp(rng, cfg, rng.random() < 0.5)
        k = rng.randrange(4)
        if k == 3:
            # router advertisements / solicitations, redirects, listener queries, ICMP errors about other flows
            nm, fr = rng.choice(gen.icmp_noise(rng, cfg))
            noise.append((fr, nm))
        elif k == 0:
            if rng.random() < 0.3:
                # datagrams that stop in the middle of a request, single-fault requests, reply-typed messages: whatever a
                # responder keeps of them must not be kept where the next datagram of somebody else finds it
                u = rng.choice(gen.app_requests(rng))[1]
                u = rng.choice([u[:rng.randrange(1, max(2, len(u)))], rng.choice(gen.near_requests(rng))[1], u[:7], u[:8]])
                noise.append((oe.udp(gen.rnd_port(rng), gen.rnd_port(rng), u), "udp:partial"))
            elif rng.random() < 0.3:
                c = rpc.gen_call(rng, prog=rpc.PMAP, vers=rng.choice([2, 2, 3, 4]), proc=rng.choice([1, 1, 2]), maxauth=8)     # SET / UNSET over UDP
                noise.append((oe.udp(gen.rnd_port(rng), rng.choice([111, gen.rnd_port(rng)]), bytes([0x7A]) + c["msg"][1:]), "udp:pmap_set"))
            elif rng.random() < 0.5:
                # two clients asking the same service almost the same thing: the second datagram differs from the first in one
                # bit of its leading bytes (DNS flags / id, STUN type / id, RPC xid / version ...).  Whatever a responder
                # remembers of the first one (a cache of serialised answers, say) must not colour the answer to the second
                apps = gen.app_requests(rng)
                u = rng.choice([a for a in apps if a[0] == "dns"] * 6 + [a for a in apps if a[0].startswith(("stun", "rpc"))])[1]
                t = bytearray(u)
                t[rng.randrange(min(8, len(t))) if rng.random() < 0.8 else rng.randrange(len(t))] ^= 1 << rng.randrange(8)
                o2 = gen.endp(rng, cfg, oe.v6)
                o2 = pkt.Endp(o2.cmac, oe.smac, o2.cip, oe.sip)
                udp_dp = gen.rnd_port(rng)
                pair = [(oe.udp(gen.rnd_port(rng), udp_dp, u), "udp:twin"), (o2.udp(gen.rnd_port(rng), udp_dp, bytes(t)), "udp:twin")]
                rng.shuffle(pair)
                noise.extend(pair)
            else:
                noise.append((oe.udp(gen.rnd_port(rng), gen.rnd_port(rng), rng.choice(gen.app_requests(rng))[1]), "udp"))
        elif k == 1:
            noise.append((oe.echo(rng.getrandbits(16), 1, b"noise"), "echo"))
        else:
            e4 = gen.endp(rng, cfg, False)
            noise.append((gen.arp_request(e4), "arp"))
    if not e.v6 and rng.random() < 0.4:
        # ARP traffic that names F's client address with another MAC (gratuitous / spoofed / after a NIC change)
        other = gen.rnd_mac(rng)
        tpa = e.sip
        noise.append((pkt.eth(pkt.BCAST, other, pkt.ET_ARP, pkt.arp(1, other, e.cip, b"\0" * 6, tpa)), "arp:claims_client_ip"))
        if rng.random() < 0.5:
            noise.append((pkt.eth(cfg.mac, other, pkt.ET_ARP, pkt.arp(2, other, e.cip, cfg.mac, tpa)), "arp:reply_claims_client_ip"))
    for f, k in noise:
        p = rng.randrange(len(H) + 1)
        H.insert(p, f)
        Hk.insert(p, k)
    # rejected data segments on F's own tuple: only before F's first data segment
    pre = [(e.tcp(sp, dp, rng.getrandbits(32), (ckF + rng.choice([0, 2, 5])) & 0xFFFFFFFF, PSH | ACK, b"early" * rng.randrange(1, 4)), "own:rejected")
           for _ in range(rng.choice([0, 0, 1, 2]))]
    # --- the three executions
    aloneF = execute(ctx, F) if forced or rng.random() > 0.08 else execute_fresh(ctx, F)
    Hall = [f for f, _k in pre] + H
    Hkall = [k for _f, k in pre] + Hk
    aloneH = execute(ctx, Hall)
    # interleave: 'pre' must precede F's first data segment
    order = []
    fi, hi = 0, 0
    first_data = Fk.index("data") if "data" in Fk else len(F)
    while fi < len(F) or hi < len(Hall):
        takeF = fi < len(F) and (hi >= len(Hall) or rng.random() < len(F) / (len(F) + len(Hall) + 0.0))
        if takeF and fi >= first_data and hi < len(pre):
            takeF = False
        if takeF:
            order.append(("F", fi))
            fi += 1
        else:
            order.append(("H", hi))
            hi += 1
    inter = execute(ctx, [F[i] if w == "F" else Hall[i] for w, i in order])
    ctx.stats["triples"] += 1
    # --- compare
    mism = []
    for pos, (w, i) in enumerate(order):
        want = aloneF[i] if w == "F" else aloneH[i]
        if inter[pos] != want:
            mism.append((pos, w, i, want, inter[pos]))
    # non-triviality: an accepted data segment of another flow between two segments of F
    fpos = [p for p, (w, i) in enumerate(order) if w == "F"]
    between = any(w == "H" and Hkall[i].endswith(":data") and aloneH[i] is not None and fpos and fpos[0] < p < fpos[-1]
                  for p, (w, i) in enumerate(order))
    word = " ".join((Fk[i] if w == "F" else Hkall[i]) for w, i in order)
    if between:
        ctx.nontrivial(Fname, word)
    if len(ctx.samples) < 2 and between:
        ctx.sample({"target": Fname, "interleaving": word})
    # flow-less traffic (UDP, ICMP, ARP) has no history at all: each such frame of H is answered in the interleaving exactly
    # as it is answered when it is the only frame the responder sees after a reset
    solo = [(pos, i) for pos, (w, i) in enumerate(order) if w == "H" and Hkall[i].split(":")[0] in ("udp", "echo", "arp")]
    twins = [x for x in solo if Hkall[x[1]] == "udp:twin"]
    for pos, i in twins + rng.sample(solo, min(3, len(solo))):
        want = execute(ctx, [Hall[i]])[0] if Hkall[i] != "udp:twin" else execute_fresh(ctx, [Hall[i]])[0]
        ctx.stats["solo_comparisons"] += 1
        if want != inter[pos] and not mism:
            ctx.violation("interference:flowless", "%s frame #%d of the interleaving is answered differently than when it is the only frame sent: alone=%s interleaved=%s" % (
                Hkall[i], pos, canon.describe(want), canon.describe(inter[pos])), observed=canon.describe(inter[pos]), expected=canon.describe(want),
                extra={"F": [x.hex() for x in F], "H": [x.hex() for x in Hall], "order": order})
    if mism:
        pos, w, i, want, got = mism[0]
        collision = ckF in cks or len(set(cks)) < len(cks)
        # the recorded finding is matched by its stored witness only (forced=...); equal cookies between the
        # one-field-different tuples of a random triple are a different defect and are reported
        key = KNOWN_COLLISION if (collision and forced) else ("interference:equal_cookies_on_distinct_flows" if collision else "interference")
        ctx.violation(key, "frame #%d of the interleaving (%s, %s) is answered differently than in isolation: alone=%s interleaved=%s; "
                      "order: %s" % (pos, "target flow" if w == "F" else "other traffic", Fk[i] if w == "F" else Hkall[i],
                                     canon.describe(want), canon.describe(got), word),
                      observed=canon.describe(got), expected=canon.describe(want),
                      extra={"F": [x.hex() for x in F], "H": [x.hex() for x in Hall], "order": order})


def reproduce_known(ctx):
    for ent in findings.known(PROP):
        w = ent.get("witness")
        if not w or ent["key"] != KNOWN_COLLISION:
            continue
        cfg = Config(pkt.mac(w["mac"]), None, None, (int(w["key"][0], 16), int(w["key"][1], 16)), "n", 0)
        ctx.case(cfg)
        A, B = w["A"], w["B"]
        ea = pkt.Endp(pkt.mac("02:00:00:00:00:0a"), cfg.mac, pkt.ip(A[0]), pkt.ip(A[2]))
        eb = pkt.Endp(pkt.mac("02:00:00:00:00:0b"), cfg.mac, pkt.ip(B[0]), pkt.ip(B[2]))
        for _ in range(6):
            triple(ctx, cfg, forced=((ea, A[1], A[3]), [(eb, B[1], B[3])]))


def crowded(ctx):
    """F = a multi-segment session, H = 2 x 66 000 other connections (one accepted data segment each), part of them
    validated before F starts, part of them between F's first and second segment: more connections than any 16-bit
    quantity holds.  F is answered as when it runs alone."""
    from ..applab import AppLab
    rng = ctx.rng
    cfg = gen.rnd_config(rng, deny=False, logger="n", level=0)
    ctx.case(cfg)
    lab = AppLab(ctx, cfg)
    sessions = []
    for _ in range(14):
        name, stream = app_stream(rng)
        if len(stream) < 4:
            continue
        segs = [x for x in cut(stream, sorted(rng.randrange(1, len(stream)) for _x in range(rng.choice([1, 1, 2])))) if x]
        if rng.random() < 0.4:
            segs = [stream, stream]          # the same request twice on one connection, the client acknowledging the first answer
        sessions.append((name, segs))
    for name, segs, alone, crowd in lab.crowded_sessions(sessions):
        ctx.stats["crowded_sessions"] += 1
        if any(x is not None for x in alone):
            ctx.nontrivial("crowded", name, tuple(len(s) for s in segs))
        if alone != crowd:
            j = next(i for i, (a, c) in enumerate(zip(alone, crowd)) if a != c)
            ctx.violation("interference:crowded", "segment #%d of a %s session (%d segments) is answered differently when 2 x 66 000 other connections are validated "
                          "before it and between its first two segments: alone=%r crowded=%r" % (j, name, len(segs), (alone[j] or b"")[:40], (crowd[j] or b"")[:40]),
                          observed=repr(crowd[j]), expected=repr(alone[j]), frames=[], note="the replay file holds the session's own frames; the 2 x 66 000 crowd connections are generated by the check (re-run it to reproduce)", extra={"segments": [s.hex()[:400] for s in segs]})


def shard(ctx, budget_s):
    rng = ctx.rng
    deadline = time.time() + budget_s
    if ctx.shard == 0:
        reproduce_known(ctx)
    if ctx.shard == 1 % ctx.nshards:
        crowded(ctx)
    n = 0
    while time.time() < deadline or n == 0:
        cfg = gen.rnd_config(rng, deny=False, logger="n", level=0)
        ctx.case(cfg)
        for _ in range(25):
            triple(ctx, cfg)
        n += 1


def run(tier, seed):
    v = core.Verdict(PROP, tier, seed)
    v.merge(core.run_shards(shard, PROP, tier, seed, budget_s=25 if tier == "quick" else 300))
    return v.finish(RULE, floor=100 if tier == "quick" else 1000, assumptions=ASSUME)
