"""C12 - only requests are answered: protocol-marked replies never elicit a reply.

(a) hand-made well-formed reply-typed messages of every enumerated kind must be met with silence (or, if the same bytes
are also acceptable as a request of another protocol, with that protocol's reply);
(b) the responder's own replies of exactly these kinds, bounced back to it, likewise;
(c) the reflection chain reply(m), reply(reply(m)), ... has at most two replies."""
import struct
import time

from .. import core, gen, pkt, sigref, workloads
from ..applab import AppLab
from ..driver import Config
from ..flow import Flow, app_payload
from ..pkt import SYN, ACK, PSH, FIN, RST, URG, ECE, CWR, ET_ARP, P_ICMP, P_ICMP6
from ..protos import dns, stun, smb, rpc, http, sshghost

PROP = "C12"
RULE = ("well-formed reply-typed messages: ARP op 2 (+3,4,8,9), ICMP echo reply, ICMPv6 echo reply and neighbour advertisement, TCP "
        "SYN|ACK with every ECN/URG decoration, RST and RST|ACK (bare, and carrying data with an acknowledgement number equal to the flow's cookie + 1, on fresh and on validated flows), DNS messages with QR=1 (0..3 answers, with/without "
        "questions, every opcode), STUN success/error responses and indications with and without magic cookie (UDP, and on a TCP "
        "flow already identified as STUN), SMB1/SMB2 messages with the reply flag for the negotiate / session-setup commands, "
        "ONC-RPC replies over UDP and TCP (boundary transaction ids included); STUN / RPC / SMB1 reply-typed messages over TCP whose body embeds the tail of a request and which are cut so that the embedded bytes start the third segment (1 | >= 28 | rest); and the responder's own replies of these kinds (ARP reply, echo replies, NA, SYN-ACK, "
        "DNS/STUN/SMB/RPC/HTTP responses elicited by the shared request generators), re-addressed as a switch would deliver them. "
        "Each must be met with silence unless the same bytes are acceptable as a request of another protocol (reference matcher / "
        "wide DNS model), in which case the reply must not be of the message's own protocol; every reflection chain is followed "
        "and must contain at most two replies. Both IP versions, self-IP list absent (present for ARP messages that name a configured address). A hand-made case is non-trivial if flipping "
        "its reply marker to 'request' gets it answered (checked by execution); bounced cases are non-trivial by construction. "
        "Distinct = distinct (kind, message bytes hash).")
ASSUME = ["'RST segment' / 'SYN|ACK segment' mean segments with these flags and without PSH (a segment carrying PSH and ACK is a data segment under C07)",
          "SSH banners, Gh0st frames and bare FIN|ACK carry no request/reply marker and are not part of the enumeration (they are symmetric by nature and are not bounced)",
          "an RPC reply message sent on a flow whose request was already completed is not judged (behaviour after completion is unconstrained)"]


def bounce(reply, cfg, peer_mac):
    """Deliver a frame emitted by the responder back to it (Ethernet addresses as a switch between two responders would)."""
    return cfg.mac + peer_mac + reply[12:]


def chain(ctx, cfg, f0, peer_mac, kind, first=None):
    """Follow reply(f0), reply(bounce(reply(f0))), ...  Returns the list of replies."""
    out = []
    f = f0
    r = first
    for i in range(6):
        if r is None:
            r = ctx.send(f)
        if r.kind != "R":
            break
        out.append(r.reply)
        f = bounce(r.reply, cfg, peer_mac)
        r = None
    ctx.stats["chains"] += 1
    ctx.stats["chain_len_%d" % len(out)] += 1
    if len(out) > 2:
        ctx.violation("chain:" + kind, "reflection chain started by a %s message has %d+ replies: %s" % (
            kind, len(out), " | ".join(pkt.summary(x) for x in out[:4])), observed=[x.hex()[:120] for x in out[:4]], expected="at most 2 replies")
    return out


def own_proto_reply(kind, payload):
    """Does `payload` look like a reply of the protocol the reply-typed message belongs to?"""
    if payload is None:
        return False
    if kind == "dns":
        return len(payload) >= 12 and payload[2] & 0x80 != 0
    if kind == "stun":
        return stun.is_stun_response(payload)
    if kind == "smb":
        return smb.is_smb_response(payload)
    if kind == "rpc":
        return len(payload) >= 8 and (payload[4:8] == b"\0\0\0\1" or payload[8:12] == b"\0\0\0\1")
    return True


WELL_KNOWN = {"dns": [53, 5353, 5355, 137], "stun": [3478, 3479, 5349, 19302], "smb": [445, 139], "rpc": [111, 2049, 635],
              None: [7, 9, 13, 17, 19, 37, 69, 123, 161, 500, 1900, 4500]}


def judge_app(ctx, lab, kind, m, tr, cfg, peer, dp=None):
    """Reply-typed application message m over transport tr (to a random port, the protocol's well-known ports, or a
    small-service port)."""
    rng = ctx.rng
    ident = lab.identified(m, tr)
    if dp is None and rng.random() < 0.4:
        dp = rng.choice(WELL_KNOWN.get(kind, []) + WELL_KNOWN[None])
    a = lab.ask(m, tr, dp=dp)
    ctx.stats["app_%s_%s" % (kind, tr)] += 1
    rep = a.rep
    if rep is not None:
        other_ok = False
        if ident is None:
            other_ok = True         # matcher disagreement: C10's business
        elif ident != sigref.NOMATCH and sigref.NAMES[ident].split("_")[0] != kind:
            other_ok = True         # leading bytes complete another protocol's signature
        elif tr == "udp" and ident == sigref.NOMATCH and kind != "dns" and dns.acceptable_as_request(m):
            other_ok = True
        if not other_ok or own_proto_reply(kind, rep):
            ctx.violation("answered:" + kind, "%s reply-typed message over %s was answered with %s" % (kind, tr, rep[:24].hex()),
                          observed=rep.hex()[:300], expected="silence", extra={"message": m.hex()[:400]})
    elif tr == "tcp" and a.res is not None and a.res.kind == "R" and not a.bare_ack:
        ctx.violation("answered:" + kind, "%s reply-typed message over tcp was answered with a non-bare segment" % kind, observed=a.res.reply.hex()[:200])
    if a.res is not None and tr == "udp":
        chain(ctx, cfg, None, peer, kind, first=a.res)
    return a


def handmade(ctx, cfg, lab, peer):
    rng = ctx.rng
    # ---- L2-L4 -----------------------------------------------------------------------------------------------------
    e4, e6 = gen.endp(rng, cfg, False), gen.endp(rng, cfg, True)
    l2 = []
    for op in (2, 2, 3, 4, 8, 9):
        l2.append(("arp_op%d" % op, gen.arp_request(e4, op=op), gen.arp_request(e4, op=1)))
        l2.append(("arp_op%d" % op, pkt.eth(cfg.mac, e4.cmac, ET_ARP, pkt.arp(op, e4.cmac, e4.cip, cfg.mac, e4.sip)), gen.arp_request(e4, op=1)))
    idn, sq, data = rng.getrandbits(16), rng.getrandbits(16), b"x" * rng.randrange(0, 64)
    l2.append(("echo_reply4", e4.echo(idn, sq, data, typ=0), e4.echo(idn, sq, data)))
    l2.append(("echo_reply6", e6.echo(idn, sq, data, typ=129), e6.echo(idn, sq, data)))
    na_body = bytes([rng.choice([0x60, 0xE0, 0x40, 0x20, 0x00])]) + b"\0\0\0" + e6.sip + b"\x02\x01" + e6.cmac
    l2.append(("na", e6.l3(P_ICMP6, pkt.icmp6(e6.cip, e6.sip, 136, 0, na_body)), gen.ns_frame(e6, e6.sip)))
    for e in (e4, e6):
        sp, dp = gen.rnd_port(rng), gen.rnd_port(rng)
        for extra in (0, ECE, CWR, URG, ECE | CWR, URG | ECE):
            l2.append(("synack", e.tcp(sp, dp, rng.getrandbits(32), rng.getrandbits(32), SYN | ACK | extra), e.tcp(sp, dp, 1, 0, SYN | extra & ~(CWR if extra & ECE else 0))))
        l2.append(("rst", e.tcp(sp, dp, rng.getrandbits(32), 0, RST), e.tcp(sp, dp, 1, 0, SYN)))
        l2.append(("rst", e.tcp(sp, dp, rng.getrandbits(32), rng.getrandbits(32), RST | ACK), e.tcp(sp, dp, 1, 0, SYN)))
        l2.append(("rst", e.tcp(sp, dp, rng.getrandbits(32), rng.getrandbits(32), RST | rng.choice([FIN, URG, ECE, SYN, PSH])), e.tcp(sp, dp, 1, 0, SYN)))
    # SYN|ACK / RST|ACK segments that carry data and acknowledge the flow's cookie (fresh flow and validated flow)
    for e in (e4, e6):
        sp, dp = gen.rnd_port(rng), gen.rnd_port(rng)
        r = ctx.send(e.tcp(sp, dp, 100, 0, SYN))
        a = pkt.parse(r.reply) if r.kind == "R" else {}
        if a.get("flags") == (SYN | ACK):
            ck1 = (a["seq"] + 1) & 0xFFFFFFFF
            req = rng.choice([b"GET / HTTP/1.1\r\n\r\n", b"SSH-2.0-x\r\n", b"x"])
            twin = e.tcp(sp, dp, 1, 0, SYN)
            for fl in (SYN | ACK, SYN | ACK | ECE, SYN | ACK | URG, RST | ACK, RST | ACK | URG, RST):
                l2.append(("synack_data" if fl & SYN else "rst_data", e.tcp(sp, dp, 101, ck1, fl, req), twin))
            if rng.random() < 0.5:
                l2.append(("validate", e.tcp(sp, dp, 101, ck1, PSH | ACK, b"hello"), twin))
                for fl in (SYN | ACK, RST | ACK, SYN | ACK | CWR):
                    l2.append(("synack_data" if fl & SYN else "rst_data", e.tcp(sp, dp, 106, rng.getrandbits(32), fl, req), twin))
                # the connection's teardown as the peer's stack sends it: payload-less RST / RST|ACK / SYN|ACK on the established flow
                for fl in (RST | ACK, RST, RST | ACK | URG, SYN | ACK, RST | ACK):
                    l2.append(("rst" if fl & RST else "synack", e.tcp(sp, dp, rng.choice([106, 107, rng.getrandbits(32)]), rng.choice([ck1, ck1 + 5, rng.getrandbits(32)]) & 0xFFFFFFFF, fl), twin))
    for kind, f, req in l2:
        if kind == "validate":
            ctx.send(f)
            continue
        r = ctx.send(f)
        ctx.stats["l2l4_" + kind.split("_")[0]] += 1
        if r.kind == "R":
            ctx.violation("answered:" + kind, "%s message was answered: %s -> %s" % (kind, pkt.summary(f), pkt.summary(r.reply)),
                          observed=r.reply.hex()[:200], expected="silence")
            chain(ctx, cfg, None, peer, kind, first=r)
        # non-triviality: the request-typed twin is answered
        if ctx.send(req).kind == "R":
            ctx.nontrivial(kind, f)
    # ---- DNS with QR=1 ---------------------------------------------------------------------------------------------
    for _ in range(12):
        nq, na = rng.choice([0, 1, 1, 2]), rng.choice([0, 1, 2, 3])
        qs = [dns.question(dns.gen_labels(rng, 60)) for _x in range(nq)]
        rrs = [dns.rr(dns.gen_labels(rng, 60), rdata=bytes(rng.getrandbits(8) for _y in range(rng.choice([0, 4, 4, 16])))) for _x in range(na)]
        flags = 0x8000 | (rng.randrange(16) << 11) | rng.getrandbits(11)
        id_ = rng.getrandbits(16)
        m = dns.header(id_, flags, nq, na) + b"".join(qs) + b"".join(rrs)
        if lab.identified(m, "udp") != sigref.NOMATCH:
            continue
        judge_app(ctx, lab, "dns", m, "udp", cfg, peer)
        twin = dns.header(id_, flags & 0x7FFF, nq, 0) + b"".join(qs)
        if lab.identified(twin, "udp") == sigref.NOMATCH and lab.ask(twin, "udp", v6=False).rep is not None:
            ctx.nontrivial("dns", m)
    # ---- STUN responses / indications ---------------------------------------------------------------------------------
    for mt in (0x0101, 0x0111, 0x0011, 0x0101, 0x0111):
        tid = stun.gen_tid(rng, rng.random() < 0.6)
        body = rng.choice([b"", stun.attr(1, b"\0\x01" + struct.pack("!H", rng.getrandbits(16)) + gen.rnd_ip4(rng)),
                           stun.attr(1, b"\0\x01\x12\x34" + gen.rnd_ip4(rng)) + stun.gen_attrs(rng, 4 * rng.randrange(0x40, 0x60)),
                           stun.gen_attrs(rng, 4 * rng.randrange(0x40, 0x80))])
        m = stun.msg(mt, tid, body)
        judge_app(ctx, lab, "stun", m, "udp", cfg, peer)
        # on a TCP flow that is already identified as STUN
        e = gen.endp(rng, cfg, rng.random() < 0.5)
        f = Flow.fresh(ctx, e)
        if f.syn() is not None:
            first, _t, _k = stun.gen_request(rng, "magic_long")
            if stun.is_stun_response(app_payload(f.data(first))):
                r2 = f.data(m)
                rep = app_payload(r2)
                ctx.stats["app_stun_tcpflow"] += 1
                ctx.nontrivial("stun_tcp", m)
                if rep:
                    ctx.violation("answered:stun", "STUN message of type %04x on an established STUN flow was answered with %s" % (mt, rep[:24].hex()),
                                  observed=rep.hex()[:200], expected="bare ACK")
        # twin: same message as a request
        if stun.is_stun_response(lab.ask(stun.msg(1, stun.gen_tid(rng, True), stun.gen_attrs(rng, 0x100)), "udp").rep):
            ctx.nontrivial("stun", m)
        # the reply-typed message directly behind a request, in the same datagram / segment: the request is answered as if it
        # were alone, the message behind it gets nothing of its own
        req, _t, _k = stun.gen_request(rng, "magic_long")
        tr = rng.choice(["udp", "tcp"])
        if lab.identified(req, tr) == sigref.STUN and lab.identified(req + m, tr) == sigref.STUN:
            v6 = rng.random() < 0.5          # (the answer's length depends on the address family: same family for both)
            alone, both = lab.ask(req, tr, v6=v6).rep, lab.ask(req + m, tr, v6=v6).rep
            ctx.stats["app_stun_coalesced"] += 1
            ctx.nontrivial("stun_coalesced", mt, tr, len(m))
            if alone is not None and both is not None and len(both) != len(alone):
                ctx.violation("answered:stun", "a STUN message of type %04x placed behind a binding request in the same %s is answered too: %d bytes come back instead of %d" % (
                    mt, "datagram" if tr == "udp" else "segment", len(both), len(alone)), observed=both.hex()[:300], expected="the answer to the request alone")
    # ---- SMB with the reply flag ------------------------------------------------------------------------------------------
    for k in ("smb1_neg", "smb1_sess", "smb2_neg", "smb2_sess"):
        req = smb.gen_request(rng, k)
        p = bytearray(req["payload"])
        if k.startswith("smb1"):
            p[4 + 9] |= 0x80
        else:
            p[4 + 16] |= 0x01
        tr = rng.choice(["tcp", "udp"])
        judge_app(ctx, lab, "smb", bytes(p), tr, cfg, peer)
        if lab.ask(req["payload"], tr).rep is not None:
            ctx.nontrivial("smb", k, bytes(p))
    # the reply flag silences every command, not only the ones that have a dissector
    for _ in range(6):
        tr = rng.choice(["tcp", "udp"])
        if rng.random() < 0.6:
            cmd = rng.choice([0x75, 0x71, 0x2B, 0x25, 0xA2, 0x74, 0x32, 0x04, rng.randrange(256)])
            body = rng.choice([smb.smb1_negotiate_body([b"NT LM 0.12"]), smb.smb1_session_setup_body(b"blob"), b"\0\0\0", b"\x07\xff\0\0\0" + bytes(12)])
            m = smb.nbss(smb.smb1_header(cmd, flags=0x80 | rng.getrandbits(7), mid=rng.getrandbits(16), status=rng.choice([0, 0xC0000022])) + body)
        else:
            cmd = rng.choice([2, 3, 4, 5, 0x0B, 0x12, 0x13, rng.randrange(65536)])
            m = smb.nbss(smb.smb2_header(cmd, flags=1 | (rng.getrandbits(3) << 1), msgid=rng.getrandbits(64), status=rng.choice([0, 0xC0000022])) + rng.choice([smb.smb2_negotiate_body([0x0202]), bytes(9), bytes(64)]))
        judge_app(ctx, lab, "smb", m, tr, cfg, peer)
        ctx.nontrivial("smb_reply_cmd", cmd, tr)
    # ---- RPC replies --------------------------------------------------------------------------------------------------------
    for _ in range(4):
        xid = (rng.choice([0x01, 0x7A, 0x99]) << 24) | rng.getrandbits(24)
        if rng.random() < 0.5:
            xid = (xid & 0xFFFF7FFF) | (rng.getrandbits(1) << 15)       # third byte's top bit: the datagram does / does not read as a DNS response
        if rng.random() < 0.35:
            # boundary and arbitrary transaction ids (an xid of 0 makes the words of a reply read like those of a call one word later)
            xid = rng.choice([0, 0, 1, 2, 0xFFFFFFFF, 0x80000000, 0x00000100, rng.getrandbits(32), rng.getrandbits(32)])
        # accepted replies with results of every size (GETPORT: one word; NFS / mount results: many small words), denied replies
        results = rng.choice([b"", struct.pack("!II", 2, 4), struct.pack("!I", 111), bytes(16), bytes(12), bytes(8), bytes(4 * rng.randrange(1, 12)), struct.pack("!IIII", 0, 0, 0, 0) + bytes(rng.randrange(0, 64) & ~3),
                              b"".join(struct.pack("!I", rng.choice([0, 0, 1, 2, 4, 8])) for _x in range(rng.randrange(4, 24)))])
        body = struct.pack("!IIIIII", xid, 1, 0, 0, 0, rng.choice([0, 0, 0, 1, 2, 3])) + results
        if rng.random() < 0.15:
            body = struct.pack("!IIII", xid, 1, 1, rng.choice([0, 1])) + struct.pack("!II", 2, 4)[:rng.choice([4, 8])]    # MSG_DENIED
        wk = rng.choice([None, None, 111, 111, 2049, 53, 7, 9, 13, 19, 37, 123, 137, 161, 500, 1900, 5353])
        judge_app(ctx, lab, "rpc", body, "udp", cfg, peer, dp=wk)
        judge_app(ctx, lab, "rpc", rpc.record(body), "tcp", cfg, peer, dp=wk)
        c = rpc.call(xid, 100000, 2, 3)
        if lab.ask(c, "udp").rep is not None:
            ctx.nontrivial("rpc", body)


def bounced(ctx, cfg, peer):
    """The responder's own replies of the enumerated kinds, sent back to it."""
    rng = ctx.rng
    kinds = {"arp": "arp", "ns": "na", "echo": "echo_reply", "syn": "synack", "tcp_syn": "synack",
             "udp_dns": "dns", "udp_stun": "stun", "udp_stuncp": "stun", "udp_smb1": "smb", "udp_smb2": "smb", "udp_rpc": "rpc",
             "tcp_smb1": "smb", "tcp_smb2": "smb", "tcp_rpc": "rpc", "tcp_stun": "stun", "tcp_stuncp": "stun", "udp_http": "http", "tcp_http": "http"}
    got = []

    def on_reply(f, r, tag):
        k = kinds.get(tag)
        if k and r.kind == "R":
            got.append((k, r.reply))
    workloads.reply_mix(ctx, cfg, rounds=1, on_reply=on_reply, own_src=0.0)
    for k, rep in got:
        # what the bounced message *is* is decided by its content, not by the request that elicited it (a DNS query that
        # is also an RFC 3489 STUN request is answered by the STUN responder)
        a0 = pkt.parse(rep)
        if "v" in a0 and a0.src == a0.dst and a0.get("sp") == a0.get("dp"):
            # fully symmetric tuple: the bounced reply is indistinguishable from the client's own next segment on that flow
            ctx.stats["bounce_symmetric_skipped"] += 1
            continue
        pl0 = a0.get("data")
        if k in ("dns", "stun", "smb", "rpc", "http") and pl0:
            if stun.is_stun_response(pl0):
                k = "stun"
            elif http.is_http_response(pl0):
                k = "http"
            elif smb.is_smb_response(pl0):
                k = "smb"
            elif len(pl0) >= 12 and (pl0[4:8] == b"\0\0\0\1" or pl0[8:12] == b"\0\0\0\1"):
                k = "rpc"
            elif len(pl0) >= 12 and pl0[2] & 0x80:
                k = "dns"
        f = bounce(rep, cfg, peer)
        r = ctx.send(f)
        ctx.stats["bounced_" + k] += 1
        ctx.nontrivial("bounce", k, rep[14:])
        if r.kind == "R":
            a = pkt.parse(r.reply)
            own = True
            if k in ("dns", "stun", "smb", "rpc", "http"):
                pl = a.get("data")
                if k == "http":
                    own = http.is_http_response(pl)
                elif pl:
                    own = own_proto_reply(k, pl)
                else:
                    own = False     # bare ACK to a bounced data segment is a TCP-level matter
                if a.get("flags") is not None and not pl:
                    own = True if a.get("flags") & (SYN | FIN) else False
            q = pkt.parse(f)
            other_ok = k in ("dns", "stun", "smb", "rpc", "http") and "ulen" in q and sigref.identify(q.data, True) == sigref.NOMATCH and \
                k != "dns" and dns.acceptable_as_request(q.data)
            if own and not other_ok or (own and other_ok and own_proto_reply(k, a.get("data"))):
                ctx.violation("answered_own:" + k, "the responder's own %s reply, bounced back, was answered: %s -> %s" % (k, pkt.summary(f), pkt.summary(r.reply)),
                              observed=r.reply.hex()[:300], expected="silence")
        chain(ctx, cfg, None, peer, k, first=r)


def arp_with_selfips(ctx):
    """ARP replies (and other non-request operations) that name one of the responder's own addresses, under a
    configuration with a self-IP list: still never answered."""
    rng = ctx.rng
    cfg = gen.rnd_config(rng, selfips=True, deny=False, logger="n", level=0)
    ctx.case(cfg)
    s4 = [a for a in cfg.selfips if len(a) == 4]
    for _ in range(40):
        own = rng.choice(s4)
        sha = rng.choice([gen.rnd_mac(rng), cfg.mac])
        spa = rng.choice([own, own, gen.rnd_ip4(rng)])
        tpa = rng.choice([own, gen.rnd_ip4(rng), spa])
        op = rng.choice([2, 2, 2, 3, 4, 8, 9])
        f = pkt.eth(rng.choice([cfg.mac, pkt.BCAST]), sha if rng.random() < 0.8 else gen.rnd_mac(rng), ET_ARP, pkt.arp(op, sha, spa, rng.choice([cfg.mac, bytes(6), pkt.BCAST]), tpa))
        r = ctx.send(f)
        ctx.stats["l2l4_arp_selfip"] += 1
        ctx.nontrivial("arp_selfip", op, spa == own, tpa == own, sha == cfg.mac)
        if r.kind == "R":
            ctx.violation("answered:arp_op%d" % op, "ARP message with operation %d naming a configured address was answered: %s -> %s" % (op, pkt.summary(f), pkt.summary(r.reply)),
                          observed=r.reply.hex(), expected="silence")
            chain(ctx, cfg, None, gen.rnd_mac(rng), "arp", first=r)


def spliced(ctx, lab):
    """A reply-typed message M that shares its first byte with a request R and carries the rest of R inside its body, cut so
    that the embedded bytes start a segment: M = M[:1] | M[1:1+L] | R[1:] + padding, L >= 28.  As a byte stream this is M - a
    well-formed reply-typed message (whose body happens to hold those bytes) - and nothing else; a responder that matched
    the third segment against what it kept of the first one would read R."""
    rng = ctx.rng
    L = rng.randrange(28, 60)
    k = rng.randrange(3)
    if k == 0:
        R = stun.gen_request(rng, "magic_long")[0]
        x = max(0, 1 + L - 24)
        L = 23 + x
        body = bytes(rng.getrandbits(8) for _ in range(x)) + R[1:]
        body += bytes(-len(body) % 4)
        M = stun.msg(rng.choice([0x0011, 0x0017, 0x0016, 0x0013]), stun.gen_tid(rng, True), stun.attr(0x0013, body))
        kind = "stun"
    elif k == 1:
        R = rpc.record(rpc.gen_call(rng, prog=rpc.PMAP, vers=2, proc=rng.choice([0, 3, 4]))["msg"])
        R = R[:4] + bytes([rng.choice([0x01, 0x7A, 0x99])]) + R[5:]
        x = 1 + L - 28
        res = bytes(rng.getrandbits(8) for _ in range(x)) + R[1:]
        res += bytes(-len(res) % 4)
        M = rpc.record(struct.pack("!IIIIII", (rng.choice([0x01, 0x7A, 0x99]) << 24) | rng.getrandbits(24), 1, 0, 0, 0, 0) + res)
        kind = "rpc"
    else:
        q = smb.gen_request(rng, "smb1_neg")
        R = q["payload"]
        L = max(L, 40)
        x = 1 + L - 39
        data = bytes(rng.getrandbits(8) for _ in range(x)) + R[1:]
        M = smb.nbss(smb.smb1_header(0x72, flags=0x98, mid=rng.getrandbits(16)) + b"\x00" + struct.pack("<H", len(data)) + data)
        kind = "smb"
    if M[:1] != R[:1] or M[1 + L:1 + L + len(R) - 1] != R[1:] or lab.identified(R, "tcp") in (None, sigref.NOMATCH):
        ctx.stats["spliced_skipped"] += 1
        return
    if lab.ask(R, "tcp").rep is None:
        return
    reps = lab.ask_segments(M, [1, 1 + L])
    ctx.stats["spliced_" + kind] += 1
    ctx.nontrivial("spliced", kind, L, R[:40])
    if reps is not None and any(r is not None for r in reps):
        j = next(i for i, r in enumerate(reps) if r is not None)
        ctx.violation("answered:%s:spliced" % kind, "a %s reply-typed message of %d bytes sent in three segments (1, %d, %d bytes) is answered at segment #%d with %s: the third segment, "
                      "read as if it followed the first one, spells a request" % (kind, len(M), L, len(M) - 1 - L, j, reps[j][:24].hex()),
                      observed=reps[j].hex()[:300], expected="silence", extra={"message": M.hex()[:600], "cuts": [1, 1 + L]})


def shard(ctx, budget_s):
    rng = ctx.rng
    deadline = time.time() + budget_s
    n = 0
    while time.time() < deadline or n == 0:
        arp_with_selfips(ctx)
        cfg = gen.rnd_config(rng, selfips=False, deny=False, logger="n", level=0)
        ctx.case(cfg)
        lab = AppLab(ctx, cfg)
        peer = gen.rnd_mac(rng)
        handmade(ctx, cfg, lab, peer)
        bounced(ctx, cfg, peer)
        for _ in range(6):
            spliced(ctx, lab)
        if ctx.shard == 0 and len(ctx.samples) < 2:
            ctx.sample({"example": "DNS QR=1 message", "hex": (dns.header(1, 0x8180, 1, 1) + dns.question([b"a"]) + dns.rr([b"a"])).hex()})
        n += 1


def run(tier, seed):
    v = core.Verdict(PROP, tier, seed)
    v.merge(core.run_shards(shard, PROP, tier, seed, budget_s=20 if tier == "quick" else 240))
    return v.finish(RULE, floor=300, assumptions=ASSUME)
