"""C07 - TCP data is accepted only behind a valid cookie; seq/ack arithmetic is exact.

Oracle: executable connection model (set of validated flows; cookie learned from a probe SYN at the boundary)."""
import time

from .. import core, gen, pkt, findings, sigref, canon
from ..flow import Flow, app_payload
from ..protos import http, rpc
from ..driver import Config
from ..pkt import SYN, ACK, PSH, FIN, RST, URG, ECE, CWR, NS

PROP = "C07"
RULE = ("random scripts of 4-40 segments over 1-6 interleaved flows (tuples differing in exactly one field, swapped "
        "endpoints, IPv4 and IPv6), acknowledgement numbers drawn from {cookie+1, cookie, cookie+2, 0, 1, random}, sequence "
        "numbers next to 2^32 so that seq+len wraps, payload lengths 0..1460 (random bytes, valid application requests of every protocol, requests with one grammar fault, "
        "parser-hostile strings, in any order on one connection), extra flags (URG/ECE/CWR/NS/FIN/SYN) next to PSH|ACK, bare ACK / RST / FIN|ACK segments, data before any "
        "SYN, after FIN|ACK, after a table reset, control segments carrying the flow's own cookie+1, and flows whose cookie is exactly 0 / 0xFFFFFFFF (ack 0 must be accepted resp. rejected); every reply (or silence) and the table size are compared with the "
        "connection model; logger / verbosity at random, and 8 % of the scripts run on a responder already holding 300 / 4200 / 9000 connections of other clients. Non-trivial = script with at least one accepted and one rejected data segment; distinct = "
        "distinct abstract scripts (per step: flow, flags, ack class, length class, outcome).")
ASSUME = ["the cookie of a flow is whatever sequence number the responder puts in the SYN-ACK of a probe SYN on that flow",
          "flows whose cookie is 0x00000000 / 0xFFFFFFFF (so that cookie+1 wraps to 0) come from witnesses.json (brute-forced offline under the assumption that the cookie is SipHash-2-4 of the tuple; re-validated by a probe SYN at run time and skipped if stale)",
          "segments combining RST with PSH|ACK are not generated (the statement does not decide them)",
          "a FIN|ACK / ACK / RST segment that carries payload but no PSH is judged like the bare one (FIN|ACK: answered, acknowledging sequence + 1; the others: silence), which is what the reference connection model does"]

KNOWN_COLLISION = "cookie-collision"


class Model:
    def __init__(self):
        self.validated = {}     # flow id -> cookie
        self.stream = {}        # flow id -> first bytes of the accepted stream
        self.base = 0           # connections of other clients already in the table (busy responder)

    def reset(self):
        self.validated = {}
        self.stream = {}
        self.base = 0


def fid(e, sp, dp):
    return (e.cip, e.sip, sp, dp)


def check_reply_fields(a, want_flags_mask, q, errs, fin=False):
    if fin:
        if a.get("flags") != (FIN | ACK):
            errs.append("flags FIN|ACK answered with flags %03x" % a.get("flags", -1))
        if a.get("ack") != (q.seq + 1) & 0xFFFFFFFF:
            errs.append("ack %s != seq+1 = %d" % (a.get("ack"), (q.seq + 1) & 0xFFFFFFFF))
    else:
        fl = a.get("flags", -1)
        haspl = bool(a.get("data"))
        if not fl & ACK or fl & ~(ACK | PSH):
            errs.append("flags data segment answered with flags %03x" % fl)
        elif bool(fl & PSH) != haspl:
            errs.append("psh PSH=%d but reply carries %d payload bytes" % (bool(fl & PSH), len(a.get("data", b""))))
        if a.get("ack") != (q.seq + len(q.data)) & 0xFFFFFFFF:
            errs.append("ack %s != seq+len = %d" % (a.get("ack"), (q.seq + len(q.data)) & 0xFFFFFFFF))
    if a.get("seq") != q.ack:
        errs.append("seq %s != peer's acknowledgement number %d" % (a.get("seq"), q.ack))


def script(ctx, cfg, model, cookies):
    """One random script; returns (abstract word, n_accepted, n_rejected)."""
    rng = ctx.rng
    # --- flows: a base tuple and relatives differing in exactly one field
    v6 = rng.random() < 0.5
    e = gen.endp(rng, cfg, v6, own_src=0.03)
    sp, dp = gen.rnd_port(rng), gen.rnd_port(rng)
    flows = [(e, sp, dp)]
    for _ in range(rng.choice([0, 1, 2, 3, 5])):
        k = rng.randrange(6)
        if k == 0:
            flows.append((e, sp ^ (1 << rng.randrange(16)), dp))
        elif k == 1:
            flows.append((e, sp, dp ^ (1 << rng.randrange(16))))
        elif k == 2:
            flows.append((pkt.Endp(e.cmac, e.smac, e.sip, e.cip), dp, sp))     # swapped endpoints
        elif k == 3:
            c2 = bytearray(e.cip)
            c2[-1] ^= 1 << rng.randrange(8)
            flows.append((pkt.Endp(e.cmac, e.smac, bytes(c2), e.sip), sp, dp))
        elif k == 4:
            flows.append((gen.endp(rng, cfg, not v6), sp, dp))
        else:
            flows.append((e, dp, sp))
    if not cfg.selfips and rng.random() < 0.3:
        # the same endpoints written as IPv4, as IPv4-mapped IPv6 and as IPv4-compatible IPv6: three different flows
        a4, b4 = (e.cip, e.sip) if not e.v6 else (e.cip[12:], e.sip[12:])
        m = lambda a: b"\0" * 10 + b"\xff\xff" + a
        c = lambda a: bytes(12) + a
        flows += [(pkt.Endp(e.cmac, e.smac, a4, b4), sp, dp), (pkt.Endp(e.cmac, e.smac, m(a4), m(b4)), sp, dp), (pkt.Endp(e.cmac, e.smac, c(a4), c(b4)), sp, dp)]
    if cfg.selfips:
        flows = [fl for fl in flows if fl[0].sip in cfg.selfips] or flows[:1]
    st = {}
    for i, (fe, fsp, fdp) in enumerate(flows):
        st[i] = {"seq": rng.choice([0xFFFFFFFF, 0xFFFFFF00, 0, rng.getrandbits(32)]), "peer": rng.getrandbits(32), "syn": False}
    word = []
    acc = rej = 0
    nsteps = rng.randrange(4, 40)
    for _step in range(nsteps):
        i = rng.randrange(len(flows))
        fe, fsp, fdp = flows[i]
        s = st[i]
        f_id = fid(fe, fsp, fdp)
        act = rng.random()
        if not s["syn"] and rng.random() < 0.4:
            act = 0.0       # flows without a SYN-ACK so far are probed more often - but still see every other kind of segment
        if act < 0.15:
            # probe SYN: learn the cookie at the boundary
            r = ctx.send(fe.tcp(fsp, fdp, (s["seq"] - 1) & 0xFFFFFFFF, 0, SYN))
            a = pkt.parse(r.reply) if r.kind == "R" else {}
            if a.get("flags") == (SYN | ACK):
                if f_id in cookies and cookies[f_id] != a["seq"]:
                    ctx.violation("cookie_unstable", "cookie of a flow changed between two SYNs", observed=[cookies[f_id], a["seq"]])
                cookies[f_id] = a["seq"]
                s["syn"] = True
            word.append((i, "syn"))
            continue
        if act < 0.22:
            fl = rng.choice([ACK, RST, RST | ACK, FIN | ACK, FIN | ACK])
            q_ack = rng.choice([s["peer"], rng.getrandbits(32), 0] + ([(cookies[f_id] + 1) & 0xFFFFFFFF] * 2 if f_id in cookies else []))
            # control segments may carry bytes too (a FIN|ACK with the last few bytes but without PSH, a RST with a
            # diagnostic string): a segment without PSH is no data segment, its payload is not acknowledged
            cpl = bytes(rng.getrandbits(8) for _x in range(rng.choice([1, 5, 18, 100]))) if rng.random() < 0.25 else b""
            f = fe.tcp(fsp, fdp, s["seq"], q_ack, fl, cpl)
            r = ctx.send(f)
            q = pkt.parse(f)
            errs = []
            if fl == (FIN | ACK):
                if r.kind != "R":
                    errs.append("finack_unanswered bare FIN|ACK not answered")
                else:
                    check_reply_fields(pkt.parse(r.reply), 0, q, errs, fin=True)
            elif r.kind == "R":
                errs.append("bare_%s_answered bare %s segment answered with %s" % ("ack" if fl == ACK else "rst", "ACK" if fl == ACK else ("RST" if fl == RST else "RST|ACK"), pkt.summary(r.reply)))
            for e_ in errs:
                ctx.violation(e_.split(" ")[0], e_ + "; " + pkt.summary(f), observed=r.reply.hex() if r.reply else r.kind)
            if r.table != len(set(model.validated.values())):
                pass
            word.append((i, "ctl%03x" % fl, r.kind))
            continue
        if act < 0.25:
            ctx.reset_table()
            model.reset()
            ctx.history.append("RESET")     # marker understood by the replayer
            word.append(("reset",))
            continue
        # --- data segment
        known = f_id in cookies
        ck = cookies.get(f_id)
        kind = rng.choice(["good", "good", "good", "cookie", "plus2", "zero", "one", "rand", "rand"]) if known else rng.choice(["zero", "rand", "rand", "one"])
        if f_id in model.validated and rng.random() < 0.5:
            kind = rng.choice(["peer", "rand", "zero"])
        ackv = {"good": lambda: (ck + 1) & 0xFFFFFFFF, "cookie": lambda: ck, "plus2": lambda: (ck + 2) & 0xFFFFFFFF, "zero": lambda: 0, "one": lambda: 1,
                "rand": lambda: rng.getrandbits(32), "peer": lambda: s["peer"]}[kind]()
        n = rng.choice([0, 1, 1, 2, 7, 100, 536, 1460, rng.randrange(0, 1461)])
        if rng.random() < 0.15:
            pl = rng.choice([b"GET / HTTP/1.1\r\n\r\n", b"SSH-2.0-x\r\n", b"Gh0st\0\0\0\0", b"\x00\x01\x00\x00\x21\x12\xa4\x42" + bytes(12)])
        elif rng.random() < 0.3:
            # valid requests of every protocol, requests with one grammar fault, parser-hostile strings: a connection may
            # carry any of them in any order (a failed HTTP request followed by an RPC record, ...)
            pl = gen.tcp_payload(rng)[:1460]
        else:
            pl = bytes(rng.getrandbits(8) for _ in range(n)) if n < 64 else bytes([rng.getrandbits(8)]) * n
        extra = rng.choice([0, 0, 0, 0, URG, ECE, CWR, NS, URG | ECE | CWR | NS, FIN, SYN])
        opts = b"\x01\x01\x01\x01" if rng.random() < 0.1 else b""
        f = fe.tcp(fsp, fdp, s["seq"], ackv, PSH | ACK | extra, pl, off=5 + len(opts) // 4, opts=opts)
        r = ctx.send(f)
        q = pkt.parse(f)
        was_validated = f_id in model.validated
        should_accept = was_validated or (known and ackv == (ck + 1) & 0xFFFFFFFF)
        if not known and not was_validated:
            # cookie never observed: acceptance would need a 2^-32 guess; model says reject
            should_accept = False
        errs = []
        if should_accept:
            acc += 1
            if r.kind != "R":
                errs.append("data_unanswered data segment on a %s flow with ack=%s not answered" % ("validated" if was_validated else "fresh", kind))
            else:
                check_reply_fields(pkt.parse(r.reply), 0, q, errs)
                a = pkt.parse(r.reply)
                if "seq" in a:
                    s["peer"] = (a.seq + len(a.data)) & 0xFFFFFFFF
                # "PSH iff it carries application data": application data is due only once the accepted stream of the
                # flow has completed a signature (reference matcher; the compiled matcher is consulted before blaming
                # the connection layer - where the two disagree the case belongs to C10)
                strm = (model.stream.get(f_id, b"") + pl)[:96]
                model.stream[f_id] = strm
                if a.get("data") and sigref.identify(strm, False) == sigref.NOMATCH:
                    real = ctx.__dict__.setdefault("_real", sigref.RealMatcher(ctx))
                    if real.identify(strm, False) == sigref.NOMATCH:
                        errs.append("app_data_unidentified the accepted stream of this flow (%s...) completes no protocol signature, yet the reply carries %d bytes of application data" % (
                            strm[:32].hex(), len(a.data)))
                    else:
                        ctx.stats["matcher_divergence_skipped"] += 1
            model.validated[f_id] = ck if known else None
        else:
            rej += 1
            if r.kind == "R":
                # is there a validated flow with the same cookie? -> the recorded table-keyed-by-cookie defect
                # equal cookies on two different tuples of a random script are NOT the recorded birthday collision
                # (that one is reproduced from its stored witness only): report them under their own key
                same = known and any(c == ck for fl_, c in model.validated.items() if fl_ != f_id)
                key = "data_accepted_without_cookie:equal_cookies_on_distinct_flows" if same else "data_accepted_without_cookie"
                errs.append("%s unvalidated flow, ack=%s (cookie %s): answered with %s" % (key, kind, ck, pkt.summary(r.reply)))
        for e_ in errs:
            ctx.violation(e_.split(" ")[0], e_ + "; segment " + pkt.summary(f), observed=r.reply.hex() if r.reply else r.kind,
                          expected="reply" if should_accept else "silence")
        # table size = number of distinct validated cookies
        want_t = model.base + len(set(c for c in model.validated.values()))
        if r.kind != "P" and r.table != want_t and None not in model.validated.values():
            ctx.violation("table_size", "connection table holds %d entries, model says %d" % (r.table, want_t), observed=r.table, expected=want_t)
        s["seq"] = (s["seq"] + len(pl)) & 0xFFFFFFFF
        n = len(pl)
        word.append((i, "d%03x" % extra, kind, 0 if n == 0 else (1 if n < 64 else 2), r.kind, should_accept))
    return word, acc, rej


def reproduce_known(ctx):
    """Replay the stored witness of the cookie-collision finding (two flows, same key, equal cookies)."""
    for ent in findings.known(PROP):
        w = ent.get("witness")
        if not w or ent["key"] != KNOWN_COLLISION:
            continue
        cfg = Config(pkt.mac(w["mac"]), None, None, (int(w["key"][0], 16), int(w["key"][1], 16)), "n", 0)
        ctx.case(cfg)
        A, B = w["A"], w["B"]
        ea = pkt.Endp(pkt.mac("02:00:00:00:00:0a"), cfg.mac, pkt.ip(A[0]), pkt.ip(A[2]))
        eb = pkt.Endp(pkt.mac("02:00:00:00:00:0b"), cfg.mac, pkt.ip(B[0]), pkt.ip(B[2]))
        ra = ctx.send(ea.tcp(A[1], A[3], 100, 0, SYN))
        rb = ctx.send(eb.tcp(B[1], B[3], 200, 0, SYN))
        if ra.kind != "R" or rb.kind != "R":
            continue
        ca, cb = pkt.parse(ra.reply).seq, pkt.parse(rb.reply).seq
        if ca != cb:
            ctx.stats["known_witness_no_longer_collides"] += 1
            continue
        # validate A, then B (never validated) sends data with a wrong acknowledgement number
        ctx.send(ea.tcp(A[1], A[3], 101, (ca + 1) & 0xFFFFFFFF, PSH | ACK, b"GET / HT"))
        r = ctx.send(eb.tcp(B[1], B[3], 201, 12345, PSH | ACK, b"TP/1.1\r\n\r\n"))
        if r.kind == "R":
            ctx.violation(KNOWN_COLLISION, "two flows with equal cookie %08x share one control block: unvalidated flow B with a wrong "
                          "acknowledgement number is answered (%s)" % (ca, pkt.summary(r.reply)), observed=r.reply.hex(), expected="silence")
        else:
            ctx.stats["known_witness_now_rejected"] += 1


def boundary_cookies(ctx):
    """Flows whose cookie is 0x00000000 / 0xFFFFFFFF (witnesses found offline, re-validated here by a probe SYN):
    ack = cookie + 1 (mod 2^32) is 1 resp. 0."""
    import json
    import os
    from .. import build
    try:
        ws = json.load(open(os.path.join(build.VERIF, "witnesses.json")))["boundary_cookies"]
    except Exception:
        return
    for w in ws:
        cfg = Config(pkt.mac("c0:ff:ee:c0:ff:ee"), None, None, (int(w["key"][0], 16), int(w["key"][1], 16)), "n", 0)
        ctx.case(cfg)
        e = pkt.Endp(pkt.mac("02:00:00:00:00:77"), cfg.mac, pkt.ip(w["src"]), pkt.ip(w["dst"]))
        sp, dp, want = w["sport"], w["dport"], int(w["cookie"], 16)
        r = ctx.send(e.tcp(sp, dp, 9, 0, SYN))
        a = pkt.parse(r.reply) if r.kind == "R" else {}
        if a.get("seq") != want:
            ctx.stats["boundary_witness_stale"] += 1
            continue
        good = (want + 1) & 0xFFFFFFFF
        for bad in ((0, 1, 2, 0xFFFFFFFF) if want == 0 else (0xFFFFFFFF, 1, 0xFFFFFFFE, 2)):
            if bad == good:
                continue
            f = e.tcp(sp, dp, 10, bad, PSH | ACK, b"GET / HTTP/1.1\r\n\r\n")
            r = ctx.send(f)
            ctx.stats["boundary_rejects"] += 1
            if r.kind == "R":
                ctx.violation("data_accepted_without_cookie:boundary", "flow with cookie %08x: data with ack=%d (valid is %d) was answered" % (want, bad, good),
                              observed=r.reply.hex(), expected="silence")
        f = e.tcp(sp, dp, 10, good, PSH | ACK, b"GET / HTTP/1.1\r\n\r\n")
        r = ctx.send(f)
        ctx.stats["boundary_accepts"] += 1
        ctx.nontrivial("boundary", want)
        if r.kind != "R":
            ctx.violation("data_unanswered:boundary", "flow with cookie %08x: data with the valid ack=%d (cookie+1 mod 2^32) was not answered" % (want, good),
                          observed=r.kind, expected="reply")
        else:
            errs = []
            check_reply_fields(pkt.parse(r.reply), 0, pkt.parse(f), errs)
            for e_ in errs:
                ctx.violation(e_.split(" ")[0] + ":boundary", e_, observed=r.reply.hex())


def split_twin(ctx, cfg):
    """"PSH iff the reply carries application data", for the incrementally parsed protocols: the same request delivered
    whole on one connection and in two or three segments on another yields the same application data (Date masked) - and
    nothing but bare ACKs before the segment that completes it.  (C11 explores the cuts systematically; here every
    script sees one.)"""
    rng = ctx.rng
    if rng.random() < 0.5:
        req = http.gen(rng, max_target=20, max_headers=3)
    else:
        c = rpc.gen_call(rng, prog=rpc.PMAP, vers=rng.choice([2, 3, 4]), proc=rng.choice([0, 3, 4]), maxauth=40)
        req = rpc.record(bytes([rng.choice([0x01, 0x7A, 0x99, 0xFE])]) + c["msg"][1:])
    real = ctx.__dict__.setdefault("_real", sigref.RealMatcher(ctx))
    if len(req) < 3 or sigref.identify(req, False) == sigref.NOMATCH or real.identify(req, False) != sigref.identify(req, False):
        return
    outs = []
    e0, dp = gen.endp(rng, cfg, rng.random() < 0.5), gen.rnd_port(rng)
    for cuts in ([], sorted(rng.sample(range(1, len(req)), rng.choice([1, 1, 2]) if len(req) > 3 else 1))):
        # the contacted endpoint is part of some replies (portmapper): same server address and port, another client
        e1 = gen.endp(rng, cfg, e0.v6)
        f = Flow.fresh(ctx, pkt.Endp(e1.cmac, e0.smac, e1.cip, e0.sip, fuzz=rng), dp=dp)
        if f.syn() is None:
            return
        pieces, last = [], 0
        for cpos in list(cuts) + [len(req)]:
            pieces.append(req[last:cpos])
            last = cpos
        reps = [app_payload(f.data(piece)) for piece in pieces]
        outs.append((cuts, [canon.mask_app(x) if x else None for x in reps]))
    whole, (cuts, parts) = outs[0][1][0], outs[1]
    ctx.stats["split_twins"] += 1
    got = [x for x in parts if x]
    # (segments after the completing one are not constrained: the parsers rest in their final state)
    if (whole is None) != (not got) or (whole is not None and got[0] != whole):
        ctx.violation("split_changes_application_data", "request answered with %s when delivered whole, with %s when cut at %s" % (
            "%d bytes" % len(whole) if whole else "a bare ACK", [len(x) if x else None for x in parts], cuts),
            observed=str([len(x) if x else None for x in parts]), expected="the same application data in the completing segment",
            extra={"stream": req.hex()[:2000], "cuts": cuts})


def shard(ctx, budget_s):
    rng = ctx.rng
    deadline = time.time() + budget_s
    if ctx.shard == 0:
        reproduce_known(ctx)
    if ctx.shard == 1 % ctx.nshards:
        boundary_cookies(ctx)
    n = 0
    while time.time() < deadline or n == 0:
        cfg = gen.rnd_config(rng, deny=False, logger=rng.choice("nnnncl"), level=rng.choice([0, 0, 2, 3, 4, 5]))
        ctx.case(cfg)
        model, cookies = Model(), {}
        for _ in range(20):
            ctx.case(reset=True)
            model.reset()
            nv = len(ctx.violations)
            busy = rng.random() < 0.08
            if busy:
                # the same script on a responder that already holds thousands of other clients' connections
                from ..applab import AppLab
                model.base = AppLab(ctx, cfg).crowd(rng.choice([300, 4200, 4200, 9000]), payload=[b"x", b"GET /"])
                crowd_cookies = dict(ctx.cookie_owner)
                ctx.stats["busy_scripts"] += 1
            word, acc, rej = script(ctx, cfg, model, cookies)
            if busy and len(ctx.violations) > nv and any(crowd_cookies.get(c, t) != t for t, c in cookies.items() if c is not None):
                # a script flow drew the cookie of one of the crowd's connections (table keyed by cookie: the recorded finding)
                del ctx.violations[nv:]
                ctx.stats["cookie_collisions_avoided"] += 1
            ctx.stats["scripts"] += 1
            ctx.stats["accepted"] += acc
            ctx.stats["rejected"] += rej
            if acc and rej:
                ctx.nontrivial(repr(word))
            if ctx.shard == 0 and len(ctx.samples) < 3 and acc and rej:
                ctx.sample({"script": [list(map(str, w)) for w in word][:25]})
            if rng.random() < 0.3:
                split_twin(ctx, cfg)
        n += 1


def run(tier, seed):
    v = core.Verdict(PROP, tier, seed)
    profiles = ("debug",) if tier == "quick" else ("debug", "release")
    for p in profiles:
        v.merge(core.run_shards(shard, PROP, tier, seed, profile=p, budget_s=25 if tier == "quick" else 240))
    return v.finish(RULE, floor=200 if tier == "quick" else 2000, assumptions=ASSUME)
