"""C01 - no frame, history or configuration can crash the responder.

Events: caught panic (driver 'P' line), driver death, CPU-time watchdog, canary echo unanswered.
"""
import time

from .. import core, gen, pkt, monitors
from ..flow import Flow, cut
from ..pkt import SYN, ACK, PSH, FIN, RST

PROP = "C01"
RULE = ("seed frames for every layer/protocol/IP version/transport (incl. the unit tests' byte strings), every truncation "
        "length of every seed, length-field lies, hostile TLVs, non-UTF-8 text, byte-level mutation, TCP histories of "
        "1-8 interleaved cookie-validated flows with arbitrary cuts and follow-up segments, SYN floods; each under "
        "several of the 72 (self-IP, deny, logger, level) configurations, debug and release builds. A case is "
        "non-trivial if the frame structurally reaches L3 (ARP/IPv4/IPv6 header present); distinct = distinct "
        "(configuration class, frame bytes).")
ASSUME = ["frames are at most 4096 bytes (capture buffer)",
          "a caught panic in the driver stands for process death in production (the receive loop has no catch_unwind)",
          "log sink failures (EPIPE on stdout/stderr) are out of scope",
          "termination is judged on CPU time of the driver process, not wall-clock"]


def canary(ctx, e4):
    r = ctx.send(e4.echo(0xCA, 0x4A, b"canary"))
    ctx.stats["canaries"] += 1
    if r.kind != "R":
        ctx.violation("canary", "echo request no longer answered after the preceding batch (%s)" % r.kind,
                      observed=r.kind, expected="echo reply")


def note(ctx, cid, frames):
    for f in frames:
        ls, _ = monitors.frame_layers(f)
        if len(ls) >= 2:
            ctx.nt.add(core.h64(cid, f))


def tcp_histories(ctx, cfg, cid, payloads, nsess):
    rng = ctx.rng
    for _ in range(nsess):
        nflows = rng.choice([1, 1, 2, 3, 8])
        flows = []
        for _k in range(nflows):
            e = gen.endp(rng, cfg, rng.random() < 0.5, own_src=0.02)
            fl = Flow.fresh(ctx, e)
            name, pl = rng.choice(payloads)
            if rng.random() < 0.5:
                pl = gen.mutate(rng, pl)
            ncuts = rng.choice([0, 0, 1, 2, 3, 5])
            cuts = sorted(rng.randrange(0, len(pl) + 1) for _c in range(ncuts)) if pl else []
            segs = cut(pl, cuts)
            # follow-up traffic on a flow that already failed/completed
            for _x in range(rng.choice([0, 0, 1, 3])):
                # ... including complete requests of *other* protocols on the same flow
                segs.append(rng.choice([b"", b"\r\n\r\n", b"GET / HTTP/1.1\r\n\r\n", bytes(rng.getrandbits(8) for _y in range(rng.randrange(1, 60))), pl,
                                        rng.choice(payloads)[1], rng.choice(payloads)[1]]))
            flows.append([fl, segs, name])
        for fl, _s, _n in flows:
            if rng.random() < 0.9:
                fl.syn()
        pending = [x for x in flows if x[1]]
        while pending:
            x = rng.choice(pending)
            fl, segs, name = x
            s = segs.pop(0)
            k = rng.random()
            if k < 0.85 or fl.cookie is None:
                r = fl.data(s)
            elif k < 0.9:
                r = fl.data(s, ack=rng.getrandbits(32))
            elif k < 0.95:
                r = ctx.send(fl.data_frame(b"", flags=rng.choice([FIN | ACK, RST, ACK, SYN, SYN, SYN, FIN | PSH | ACK])))
                segs.insert(0, s)
            else:
                r = fl.data(s, flags=PSH | ACK | rng.choice([SYN, FIN, RST, 0x20, 0x40, 0x80, 0x100]))
            ctx.stats["tcp_segments"] += 1
            if not segs:
                pending.remove(x)
        ctx.stats["tcp_sessions"] += 1
        note(ctx, cid, ctx.history[-3:])
        if rng.random() < 0.3:
            ctx.case(reset=True)


def shard(ctx, tier, budget_s):
    rng = ctx.rng
    combos = gen.all_log_configs()
    mine = combos[ctx.shard::ctx.nshards] if tier == "quick" else list(combos)
    if tier == "quick":
        mine = [(ctx.shard % 2 == 0, ctx.shard % 4 < 2, "c", 5)] + mine
    else:
        rng.shuffle(mine)
    deadline = time.time() + budget_s
    per_combo_mut = 2500 if tier == "quick" else 6000
    per_combo_sess = 120 if tier == "quick" else 300
    round_ = 0
    done_combos = 0
    while time.time() < deadline:
        for ci, (s, d, lg, lv) in enumerate(mine):
            if time.time() >= deadline:
                break
            cfg = gen.rnd_config(rng, selfips=s, deny=d, logger=lg, level=lv, single_family=True)
            cid = "%d%d%s%d" % (s, d, lg, lv)
            ctx.case(cfg)
            # canary endpoint of a family the configuration handles
            e4 = gen.endp(rng, cfg, bool(cfg.selfips) and not any(len(a) == 4 for a in cfg.selfips))
            # --- seeds -----------------------------------------------------------------------------
            apps = gen.app_requests(rng)
            hp = gen.hostile_payloads(rng)
            seeds = [f for _n, f in gen.l2l4_seeds(rng, cfg)]
            udp_payloads = [u for _n, u, _t in apps] + [p for _n, p in hp] + gen.UNIT_TEST_PAYLOADS
            for p in udp_payloads:
                e = gen.endp(rng, cfg, rng.random() < 0.5, own_src=0.02)
                seeds.append(e.udp(gen.rnd_port(rng), gen.rnd_port(rng), p))
            hostile = [f for _n, f in gen.hostile_frames(rng, cfg)]
            rs = ctx.send_many(seeds + hostile)
            note(ctx, cid, seeds + hostile)
            ctx.stats["seed_frames"] += len(seeds) + len(hostile)
            if ctx.shard == 0 and round_ == 0 and ci == 0:
                for f, r in list(zip(seeds, rs))[:4]:
                    ctx.sample({"config": cid, "frame": pkt.summary(f), "hex": f.hex()[:160], "outcome": r.kind})
            canary(ctx, e4)
            # --- every truncation length of every seed (first combo of each round, and trace+console) ---
            if ci == 0 or (lg != "n" and lv >= 4 and round_ == 0):
                tr = []
                for f in seeds:
                    if len(f) <= 700:
                        tr.extend(gen.truncations(f))
                ctx.case(reset=False, record=False)
                ctx.send_many(tr)
                note(ctx, cid, tr)
                ctx.stats["truncation_frames"] += len(tr)
                ctx.case(reset=False)
                canary(ctx, e4)
            # --- mutation --------------------------------------------------------------------------
            batch = []
            base = seeds + hostile
            for _ in range(per_combo_mut):
                f = rng.choice(base)
                # most mutations hit beyond the Ethernet header so that the frame stays in scope
                lo = rng.choice([0, 14, 14, 14, 34, 42, 54, 62])
                batch.append(gen.mutate(rng, f, lo=min(lo, len(f))))
            ctx.case(reset=False, record=False)
            for i in range(0, len(batch), 500):
                ctx.send_many(batch[i:i + 500])
            note(ctx, cid, batch)
            ctx.stats["mutated_frames"] += len(batch)
            ctx.case(reset=False)
            canary(ctx, e4)
            # --- TCP histories -------------------------------------------------------------------------
            tcp_payloads = [(n, t) for n, _u, t in apps] + hp + [("unit", p) for p in gen.UNIT_TEST_PAYLOADS]
            tcp_histories(ctx, cfg, cid, tcp_payloads, per_combo_sess)
            canary(ctx, e4)
            # --- small SYN flood with every flag combination ------------------------------------------------
            e = gen.endp(rng, cfg, rng.random() < 0.5, own_src=0.02)
            fl = [e.tcp(gen.rnd_port(rng), gen.rnd_port(rng), rng.getrandbits(32), rng.getrandbits(32), f, b"z" * rng.choice([0, 0, 5]))
                  for f in range(512)]
            ctx.case(reset=False, record=False)
            ctx.send_many(fl)
            note(ctx, cid, fl)
            ctx.case(reset=False)
            canary(ctx, e4)
            done_combos += 1
            ctx.extra.setdefault("configs_run", {})
            ctx.extra["configs_run"][cid] = ctx.extra["configs_run"].get(cid, 0) + 1
        round_ += 1
        if tier == "thorough" and round_ >= 1 and time.time() >= deadline:
            break
    ctx.stats["combos_done"] += done_combos


def run(tier, seed):
    v = core.Verdict(PROP, tier, seed)
    budget = 22 if tier == "quick" else 420
    for profile in ("debug", "release"):
        res = core.run_shards(_shard_entry, PROP, tier, seed, profile=profile, budget_s=budget)
        v.merge(res)
        v.stats["shards_" + profile] += len(res)
    if tier == "thorough":
        # sanitizer stage: the same workload on an AddressSanitizer build (nightly -Zsanitizer=address) and under valgrind
        # memcheck (release build).  A report aborts the driver, which the crash monitor sees as process death.
        import glob as _glob
        import os as _os
        import shutil as _sh
        from .. import build as _b
        _sh.rmtree(_os.path.join(_b.TARGET, "sanitizer"), ignore_errors=True)
        for prof, ns, bud in (("asan", 16, 60), ("valgrind", 16, 60)):
            try:
                res = core.run_shards(_shard_entry, PROP, "quick", seed + 17, nshards=ns, profile=prof, budget_s=bud)
                v.merge(res)
                v.stats["frames_" + prof] += sum(r.get("evaluations", 0) for r in res)
            except Exception as e:
                v.notes.append("%s stage not run: %r" % (prof, e))
        logs = _glob.glob(_os.path.join(_b.TARGET, "sanitizer", "*"))
        reports = [p for p in logs if _os.path.getsize(p) > 0]
        v.extra["sanitizer_reports"] = len(reports)
        if reports:
            v.extra["sanitizer_report_excerpt"] = open(reports[0], errors="replace").read()[:3000]
    if tier == "thorough":
        # source-coverage evidence (never a verdict): which regions of each anchored file did the monitors see executed?
        import glob
        import os
        import shutil
        from .. import build
        try:
            shutil.rmtree(os.path.join(build.TARGET, "profraw"), ignore_errors=True)
            res = core.run_shards(_shard_entry, PROP, "quick", seed, nshards=8, profile="cov", budget_s=40)
            v.merge(res)
            v.stats["coverage_run_frames"] += sum(r.get("evaluations", 0) for r in res)
            cov = build.coverage_report(os.path.join(build.TARGET, "profraw"))
            if cov:
                v.extra["source_region_coverage"] = cov
                v.extra["source_region_coverage_total"] = {
                    "regions": sum(c["regions"] for c in cov.values()), "regions_covered": sum(c["regions_covered"] for c in cov.values())}
            shutil.rmtree(os.path.join(build.TARGET, "profraw"), ignore_errors=True)
        except Exception as e:      # coverage is evidence only: never fail the check because of it
            v.notes.append("coverage evidence not produced: %r" % (e,))
    sites = sorted(set(x["key"] for x in v.violations))
    v.extra["distinct_panic_sites"] = len([s for s in sites if s.startswith("panic:")])
    v.extra["configs_covered"] = len(v.extra.get("configs_run", {}))
    return v.finish(RULE, floor=2000 if tier == "quick" else 20000, assumptions=ASSUME)


def _shard_entry(ctx, budget_s):
    shard(ctx, ctx.tier, budget_s)
