"""C13 - HTTP: complete requests get a well-formed 401, anything else gets silence."""
import time

from .. import core, gen, pkt, sigref
from ..applab import AppLab
from ..protos import http

PROP = "C13"
RULE = ("requests generated from the positive grammar (9 methods, '/'-targets with arbitrary bytes incl. non-UTF-8 and "
        "controls other than SP/CR/LF, lengths up to 3500 bytes, HTTP/x.y versions, 0-4 header lines with token or arbitrary-byte names, CRLF / LF / "
        "mixed line ends) and every single-fault corruption of them (unknown, lower-case, truncated method; missing SP; "
        "missing or misspelt HTTP/; non-digit version; junk after the version; header line without colon; missing final "
        "empty line; every kind of proper prefix), each sent over UDP and inside a validated TCP flow (one segment), random "
        "ports, both IP versions, random logger and log level (off / warn / info / trace); pairs of requests on one keep-alive connection; one shard behind a connection table already holding 66 000 flows. Positive: reply must start 'HTTP/1.1 401', carry WWW-Authenticate and a "
        "Content-Length equal to the bytes after the first empty line. Negative: no reply over UDP, a bare ACK over TCP. "
        "Non-trivial = every case; distinct = distinct (class, method, request bytes hash, transport).")
ASSUME = ["a second complete request on the same connection (acknowledging the first response) is expected to be answered like the first",
          "a third of the positive requests is additionally delivered over TCP in 2-5 segments (exhaustive segmentation is C11's subject)",
          "the positive grammar is the conservative core of what the statement lists; inputs between the positive grammar and the listed faults are not judged",
          "over TCP the request is delivered in one segment here (segmentation is C11's subject)"]


def shard(ctx, budget_s):
    rng = ctx.rng
    deadline = time.time() + budget_s
    n = 0
    while time.time() < deadline or n == 0:
        cfg = gen.rnd_config(rng, deny=False, logger=rng.choice("ncl"), level=rng.choice([0, 2, 2, 3, 5]))
        crowded = ctx.shard == 3 % ctx.nshards
        ctx.case(cfg, reset=not crowded)
        lab = AppLab(ctx, cfg)
        if n == 0 and crowded:
            lab.crowd(66000)          # more than 2^16 connections seen before
            ctx.stats["crowded_table_rounds"] += 1
        # a second complete request on the same connection (keep-alive), acknowledging the first response
        from ..flow import Flow, app_payload
        for _k in range(3):
            e = gen.endp(rng, cfg, rng.random() < 0.5)
            fl = Flow.fresh(ctx, e)
            if fl.syn() is None:
                continue
            r1 = app_payload(fl.data(http.gen(rng)))
            r2 = app_payload(fl.data(http.gen(rng)))        # Flow.data follows the responder's sequence numbers
            ctx.stats["keepalive_pairs"] += 1
            ctx.nontrivial("keepalive", _k, n)
            for which, rr in (("first", r1), ("second", r2)):
                for e_ in http.check_response(rr):
                    ctx.violation("keepalive:%s:%s" % (which, e_.split(" ")[0]), "%s; %s request on one connection" % (e_, which), observed=(rr or b"").hex()[:200])
        for _ in range(40):
            p = http.gen_parts(rng)
            if rng.random() < 0.08:
                # long request-targets (up to what a 4096-byte frame can carry), arbitrary bytes
                n = rng.choice([200, 254, 255, 256, 257, 300, 1000, 2047, 2048, 2049, 2100, 3000, rng.randrange(200, 3500)])
                p["target"] = b"/" + http._bytes_excluding(rng, n - 1, (0x20, 0x0D, 0x0A)) if rng.random() < 0.7 else b"/" + b"a" * (n - 2) + bytes([rng.choice([0xE9, 0xFF, 0xC3, 0x61])])
            req = http.build(p)
            for tr in ("udp", "tcp"):
                if sigref.identify(req, tr == "udp") != sigref.HTTP:
                    ctx.stats["skipped_matcher_disagreement"] += 1
                    continue
                a = lab.ask(req, tr)
                errs = http.check_response(a.rep)
                ctx.stats["positive_" + tr] += 1
                ctx.nontrivial("pos", p["verb"], req, tr)
                for e in errs:
                    ctx.violation("response:" + e.split(" ")[0], "%s; request %r over %s" % (e, req[:80], tr), observed=(a.rep or b"").hex()[:400],
                                  expected="well-formed 401")
            # the same request delivered in several segments (cuts inside the method, the target, the headers)
            if rng.random() < 0.3 and sigref.identify(req, False) == sigref.HTTP:
                k = rng.choice([1, 2, 3, 4])
                cuts = sorted(set(rng.choice([rng.randrange(1, min(len(req), 8)), rng.randrange(1, len(req))]) for _c in range(k)))
                reps = lab.ask_segments(req, cuts)
                if reps is not None:
                    ctx.stats["positive_tcp_segmented"] += 1
                    ctx.nontrivial("seg", req, tuple(cuts))
                    if any(r is not None for r in reps[:-1]) or reps[-1] is None:
                        ctx.violation("segmented:" + ("early_reply" if reps[-1] is not None else "no_reply"),
                                      "request %r delivered in segments cut at %s: replies per segment %s" % (req[:60], cuts, [None if r is None else len(r) for r in reps]),
                                      observed=str([None if r is None else len(r) for r in reps]), expected="one reply, in the completing segment")
                    else:
                        for e in http.check_response(reps[-1]):
                            ctx.violation("response:" + e.split(" ")[0], "%s; segmented request" % e, observed=reps[-1].hex()[:300])
            kinds = list(http.FAULTS)
            rng.shuffle(kinds)
            for kind in kinds[:6]:
                bad = http.fault(rng, p, kind)
                for tr in ("udp", "tcp"):
                    a = lab.ask(bad, tr)
                    ctx.stats["negative_%s_%s" % (kind, tr)] += 1
                    ctx.nontrivial("neg", kind, bad, tr)
                    if a.rep is not None or (tr == "tcp" and a.res is not None and a.res.kind == "R" and not a.bare_ack):
                        ctx.violation("answered:" + kind, "request with fault '%s' was answered over %s: %r -> %r" % (kind, tr, bad[:80], (a.rep or b"")[:40]),
                                      observed=(a.rep or b"").hex()[:200], expected="silence (UDP) / bare ACK (TCP)")
            if ctx.shard == 0 and len(ctx.samples) < 3:
                ctx.sample({"positive": repr(req[:120]), "fault_example": repr(http.fault(rng, p, "header_no_colon")[:120])})
        n += 1


def run(tier, seed):
    v = core.Verdict(PROP, tier, seed)
    v.merge(core.run_shards(shard, PROP, tier, seed, budget_s=20 if tier == "quick" else 240))
    return v.finish(RULE, floor=500, assumptions=ASSUME)
