"""C05 - ARP, neighbour discovery and echo are answered correctly, and only those.

Oracle: the exact expected reply is built by an independent model from the (well-formed) request."""
import struct
import time

from .. import core, gen, pkt
from ..pkt import ET_ARP, ET_IP4, ET_IP6, P_ICMP, P_ICMP6

PROP = "C05"
RULE = ("exhaustive 256x256 (type, code) grid for ICMPv4 and for ICMPv6 (partitioned over the shards, each message "
        "well-formed for its type: echo with id/seq/data, NS with a handled target), every echo payload length 0..1472 "
        "in both IP versions, ARP with op in {0..10, 0xffff, random}, target handled / not handled / no self-IP list, "
        "0..18 bytes of trailing padding, NS without option / with SLLA / nonce / several options to unicast and "
        "solicited-node destinations, from ordinary and from the unspecified source address, targets handled or not, other ICMPv6 types, under random logger / verbosity settings. Each request is compared with the exact reply (or silence) "
        "predicted by the model. Non-trivial = every case (the model decides answer vs silence for each); distinct = "
        "distinct (kind, outcome, type/code or op, message length, destination class, self-IP list present).")
ASSUME = ["ARP requests with hardware/protocol types other than Ethernet/IPv4 are outside the statement (crash-freedom only, C01)",
          "only the first 28 bytes of an ARP reply are constrained (trailing padding is not)",
          "the Router flag of a Neighbour Advertisement is unconstrained; Solicited and Override must be set",
          "a solicitation from the unspecified address is expected to be answered like any other (Solicited and Override set), as the statement says"]


def expect_arp(q, cfg, f):
    if q.arp_op != 1:
        return None
    if not cfg.handles(q.arp_tpa):
        return None
    return ("arp", struct.pack("!HHBBH", 1, 0x0800, 6, 4, 2) + cfg.mac + q.arp_tpa + q.arp_sha + q.arp_spa)


def expect_icmp(q, cfg):
    if cfg.deny and q.src in cfg.deny:
        return None             # IP packets from a denied source are never answered (C02); ARP is not an IP packet
    if q.v == 4:
        if q.itype == 8 and q.icode == 0 and cfg.handles(q.dst):
            return ("echo", 0, q.irest)
        return None
    if q.itype == 128 and q.icode == 0 and cfg.handles(q.dst):
        return ("echo", 129, q.irest)
    if q.itype == 135 and q.icode == 0 and len(q.irest) >= 20 and cfg.handles(q.irest[4:20]):
        return ("na", q.irest[4:20])
    return None


def judge(ctx, f, r, cfg, kind):
    q = pkt.parse(f)
    if q.etype == ET_ARP:
        exp = expect_arp(q, cfg, f)
    else:
        exp = expect_icmp(q, cfg)
    if exp is None:
        if r.kind == "R":
            ctx.violation("answered:" + kind, "request that must not be answered got a reply: %s -> %s" % (pkt.summary(f), pkt.summary(r.reply)),
                          observed=r.reply.hex(), expected="silence", frames=[f])
        return "silence"
    if r.kind != "R":
        ctx.violation("unanswered:" + kind, "request that must be answered got none: %s" % pkt.summary(f),
                      observed=r.kind, expected=exp[0], frames=[f])
        return exp[0]
    a = pkt.parse(r.reply)
    errs = []
    if exp[0] == "arp":
        if a.etype != ET_ARP or a.l3[:28] != exp[1]:
            errs.append("arp reply %s differs from expected %s" % (a.l3[:28].hex(), exp[1].hex()))
    elif exp[0] == "echo":
        if a.get("itype") != exp[1] or a.get("icode") != 0:
            errs.append("echo reply type/code %s/%s" % (a.get("itype"), a.get("icode")))
        elif a.irest != exp[2]:
            errs.append("echo reply identifier/sequence/data differ (%d vs %d bytes)" % (len(a.irest), len(exp[2])))
    else:
        if a.get("itype") != 136 or a.get("icode") != 0:
            errs.append("NS answered with type/code %s/%s" % (a.get("itype"), a.get("icode")))
        else:
            body = a.irest
            if len(body) < 20:
                errs.append("NA shorter than its fixed part")
            else:
                if body[0] & 0x60 != 0x60:
                    errs.append("NA flags %02x: Solicited and Override must be set" % body[0])
                if body[4:20] != exp[1]:
                    errs.append("NA target %s differs from the solicited target" % pkt.ip_s(body[4:20]))
                opts, i, found = body[20:], 0, False
                while i + 2 <= len(opts):
                    t, l = opts[i], opts[i + 1]
                    if l == 0 or i + 8 * l > len(opts):
                        errs.append("NA option with bad length")
                        break
                    if t == 2 and l == 1 and opts[i + 2:i + 8] == cfg.mac:
                        found = True
                    i += 8 * l
                if not found:
                    errs.append("NA lacks a Target Link-Layer Address option holding the configured MAC")
    for e in errs:
        ctx.violation("wrong:" + kind + ":" + e.split(" ")[0], "%s; request %s" % (e, pkt.summary(f)), observed=r.reply.hex(),
                      expected=str(exp[0]), frames=[f])
    return exp[0]


def shard(ctx, budget_s):
    rng = ctx.rng
    deadline = time.time() + budget_s

    def run_batch(cfg, items):
        ctx.case(cfg, record=False)
        rs = ctx.send_many([f for _k, f in items])
        for (kind, f), r in zip(items, rs):
            out = judge(ctx, f, r, cfg, kind)
            ctx.stats["%s_%s" % (kind, out)] += 1
            q = pkt.parse(f)
            if q.etype == ET_ARP:
                shape = (q.arp_op, len(f), q.eth_dst == pkt.BCAST, q.arp_tha == b"\0" * 6, cfg.selfips is None)
            else:
                shape = (q.v, q.itype, q.icode, len(q.irest), q.eth_dst[0] & 1, cfg.selfips is None)
            ctx.nontrivial(kind, out, repr(shape))
        if ctx.shard == 0 and len(ctx.samples) < 4:
            k, f = items[len(items) // 2]
            ctx.sample({"kind": k, "frame": pkt.summary(f), "hex": f.hex()[:200]})

    # ---- exhaustive (type, code) grid, partitioned by type over the shards ---------------------------
    cfg = gen.rnd_config(rng, selfips=True, deny=False, logger="n", level=0)
    e4, e6 = gen.endp(rng, cfg, False), gen.endp(rng, cfg, True)
    items = []
    for t in range(ctx.shard, 256, ctx.nshards):
        for c in range(256):
            rest = struct.pack("!HH", rng.getrandbits(16), rng.getrandbits(16)) + b"grid"
            items.append(("grid4", e4.l3(P_ICMP, pkt.icmp4(t, c, rest))))
            if t in (135, 136):
                rest6 = b"\0\0\0\0" + e6.sip + b"\x01\x01" + e6.cmac
            else:
                rest6 = rest
            items.append(("grid6", e6.l3(P_ICMP6, pkt.icmp6(e6.cip, e6.sip, t, c, rest6))))
    run_batch(cfg, items)
    # ---- every echo payload length ----------------------------------------------------------------------
    cfg = gen.rnd_config(rng, selfips=rng.random() < 0.5, deny=False, logger="n", level=0)
    items = []
    for n in range(ctx.shard, 1473, ctx.nshards):
        for v6 in (False, True):
            e = gen.endp(rng, cfg, v6, own_src=0.02)
            items.append(("echolen", e.echo(rng.getrandbits(16), rng.getrandbits(16), bytes(rng.getrandbits(8) for _ in range(n)))))
    run_batch(cfg, items)
    # ---- ARP and NS shapes under random configurations ---------------------------------------------------
    n = 0
    while time.time() < deadline or n == 0:
        # the behaviour must not depend on the log configuration: draw logger and verbosity too
        cfg = gen.rnd_config(rng, deny=None if rng.random() < 0.5 else False, logger=rng.choice("nnncl"), level=rng.choice([0, 0, 1, 2, 3, 4, 5]))
        deny4 = [a for a in (cfg.deny or []) if len(a) == 4]
        deny6 = [a for a in (cfg.deny or []) if len(a) == 16]
        items = []
        for _ in range(60):
            e = gen.endp(rng, cfg, False, own_src=0.02)
            if deny4 and rng.random() < 0.2:
                # the deny list is about IP packets: an ARP request from a listed address is answered like any other
                e = pkt.Endp(e.cmac, e.smac, rng.choice(deny4), e.sip, fuzz=rng)
            # the operation is a 16-bit field: only the value 1 is a request (0x0101, 0xFF01, 0x0100 ... are not)
            op = rng.choice([1, 1, 1, 1, 2, 0, 3, 4, 5, 6, 7, 8, 9, 10, 0xFFFF, 0x0101, 0x0201, 0xFF01, 0x0100, 0x8001, rng.getrandbits(16)])
            tpa = e.sip if rng.random() < 0.6 else gen.rnd_ip4(rng)
            dm = rng.choice([pkt.BCAST, cfg.mac])
            tha = rng.choice([b"\0" * 6, gen.rnd_mac(rng), cfg.mac])
            sha = rng.choice([e.cmac, gen.rnd_mac(rng)])
            spa = tpa if rng.random() < 0.08 else (bytes(4) if rng.random() < 0.05 else e.cip)     # also: sender address = target address, 0.0.0.0 (probe)
            # the hardware-type field of a request is whatever the asker's stack puts there (IEEE 802 = 6 on some); the answer is
            # an Ethernet / IPv4 reply all the same
            ht = rng.choice([1, 1, 1, 1, 1, 1, 1, 6, 0, 0x0101, 0xFFFF, rng.getrandbits(16)])
            items.append(("arp", pkt.eth(dm, e.cmac, ET_ARP, pkt.arp(op, sha, spa, tha, tpa, htype=ht) + b"\0" * rng.randrange(0, 19))))
            if rng.random() < 0.1:
                items.append(items[-1])          # byte-identical retransmission
        for _ in range(60):
            e = gen.endp(rng, cfg, True, own_src=0.02)
            if deny6 and rng.random() < 0.1:
                e = pkt.Endp(e.cmac, e.smac, rng.choice(deny6), e.sip, fuzz=rng)       # denied source: silence
            target = e.sip if rng.random() < 0.5 else gen.rnd_ip6(rng)
            others = [a for a in (cfg.selfips or []) if len(a) == 16 and a != e.sip]
            if others and rng.random() < 0.3:
                target = rng.choice(others)      # unicast to one handled address, soliciting another one
            opts = rng.choice([b"", b"\x01\x01" + e.cmac, b"\x0e\x01" + bytes(6), b"\x01\x01" + e.cmac + b"\x0e\x01" + bytes(6),
                               b"\x0e\x02" + bytes(14) + b"\x01\x01" + e.cmac])
            if rng.random() < 0.2:
                # an option area cut short anywhere (a dangling type byte, a source link-layer option missing its last bytes,
                # a complete option followed by half of the next one): the solicitation is answered all the same
                full = b"\x0e\x01" + bytes(6) + b"\x01\x01" + e.cmac if rng.random() < 0.5 else b"\x01\x01" + e.cmac + b"\x0e\x01" + bytes(6)
                opts = full[:rng.randrange(1, len(full))]
            code = rng.choice([0, 0, 0, 0, 1, 255])
            sol = rng.random() < 0.5
            if sol and (not cfg.selfips or target not in cfg.selfips):
                sol = False     # that solicited-node MAC is not an authorised destination (C02): not this check's subject
            if rng.random() < 0.1:
                # duplicate-address-detection shape: solicitation from the unspecified address (no SLLA option allowed)
                e = pkt.Endp(e.cmac, e.smac, bytes(16), e.sip)
                opts = b""
            k = rng.random()
            if not sol and k < 0.25:
                # the solicitation's IP destination need not be the target: another unicast address of the node (e.g. its
                # link-local one, which is not in the self-IP list), all-nodes, or an unrelated address
                odst = rng.choice([bytes.fromhex("fe80000000000000") + target[8:], pkt.ip("ff02::1"), gen.rnd_ip6(rng)])
                e = pkt.Endp(e.cmac, pkt.ALLNODES_MAC if odst[0] == 0xFF else e.smac, e.cip, odst, fuzz=rng)
            items.append(("ns", gen.ns_frame(e, target, opts=opts, code=code, dst_solicited=sol)))
            if rng.random() < 0.2:
                t = rng.choice([133, 134, 136, 137, 130, 131, 143, 1, 2, 3, 4, 129, rng.randrange(256)])
                if t not in (128, 135):
                    items.append(("icmp6_other", e.l3(P_ICMP6, pkt.icmp6(e.cip, e.sip, t, 0, bytes(rng.getrandbits(8) for _x in range(rng.choice([4, 8, 20, 28])))))))
            typ = rng.choice([None, None, 0 if not e.v6 else 129])
            items.append(("echo", e.echo(rng.getrandbits(16), rng.getrandbits(16), b"x" * rng.randrange(0, 100), code=rng.choice([0, 0, 0, 1, 3]), typ=typ)))
            e4 = gen.endp(rng, cfg, False, own_src=0.02)
            items.append(("echo", e4.echo(rng.getrandbits(16), rng.getrandbits(16), b"y" * rng.randrange(0, 100), code=rng.choice([0, 0, 0, 1, 3]),
                                         typ=rng.choice([None, None, 0]))))
            if rng.random() < 0.15:
                items.append(items[-1])          # byte-identical retransmission
                items.append(items[-4])
        run_batch(cfg, items)
        n += 1
    ctx.stats["configs"] += n


def run(tier, seed):
    v = core.Verdict(PROP, tier, seed)
    v.merge(core.run_shards(shard, PROP, tier, seed, budget_s=20 if tier == "quick" else 200))
    return v.finish(RULE, floor=2000, assumptions=ASSUME, explanation="the (type, code) grids and the echo length sweep are enumerated completely on every run (131072 + 2946 frames)")
