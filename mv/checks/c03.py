"""C03 - replies go back to the asker, from the identity that was asked (mirror monitor is universal; this check
owns it and drives the widest reply-eliciting workload under random addressing)."""
import time

from .. import core, gen, pkt, workloads

PROP = "C03"
RULE = ("reply-eliciting mix (ARP, NS to unicast and solicited-node destinations, echo, SYN with every accepted "
        "decoration, FIN|ACK, every application protocol over UDP and inside cookie-validated TCP flows with random "
        "cuts, STUN change-port at destination ports 65534/65535/0) plus byte-mutated variants, with MACs, addresses "
        "(both IP versions, self-IP list absent/present) and ports (0, 1, 65535, well-known, random) drawn per case; "
        "the independent mirror oracle runs on every reply. Non-trivial = a reply was observed; distinct = distinct "
        "(traffic kind, request address/port tuple).")
ASSUME = ["'at most one reply per frame' is structural: reply() returns an Option and the driver reports exactly it",
          "the STUN port exception is recognised by an independent TLV walk of the request payload; a reply source port "
          "equal to destination port + (number of change-port CHANGE-REQUEST attributes) is accepted"]


def shard(ctx, budget_s):
    rng = ctx.rng
    deadline = time.time() + budget_s

    def on_reply(f, r, tag):
        if r.kind == "R":
            q = pkt.parse(f)
            ctx.nontrivial(tag, q.get("eth_src", b""), q.get("src", b""), q.get("dst", b""), q.get("sp", -1), q.get("dp", -1))
            if len(ctx.samples) < 3 and rng.random() < 0.01:
                ctx.sample({"kind": tag, "request": pkt.summary(f), "reply": pkt.summary(r.reply)})

    n = 0
    while time.time() < deadline or n == 0:
        cfg = gen.rnd_config(rng, deny=False, logger=rng.choice("nnncl"), level=rng.choice([0, 0, 2, 5]))
        ctx.case(cfg)
        workloads.reply_mix(ctx, cfg, rounds=2, on_reply=on_reply)
        # mutated variants of whatever was just sent (mirror must hold for every reply, whatever the request)
        base = list(ctx.history)
        ctx.case(reset=False, record=False)
        batch = [gen.mutate(rng, rng.choice(base), lo=14) for _ in range(400)]
        rs = ctx.send_many(batch)
        for f, r in zip(batch, rs):
            on_reply(f, r, "mutated")
        ctx.stats["mutated"] += len(batch)
        n += 1
    ctx.stats["configs"] += n


def run(tier, seed):
    v = core.Verdict(PROP, tier, seed)
    v.merge(core.run_shards(shard, PROP, tier, seed, budget_s=25 if tier == "quick" else 300))
    return v.finish(RULE, floor=500 if tier == "quick" else 5000, assumptions=ASSUME)
