"""C20 - the event log is a faithful, balanced account of every frame.

Owns the universal log monitor (grammar, nesting, fate, fields, complete lines; both formats) and adds the reach model:
the set of layers logged must equal the set of layers the frame reaches according to an independent scope model."""
import time

from .. import core, gen, pkt, monitors, workloads
from ..flow import Flow, cut
from ..pkt import ET_ARP, ET_IP4, ET_IP6, P_ICMP, P_ICMP6, P_TCP, P_UDP
from .c02 import auth_macs

PROP = "C20"
RULE = ("the C01 corpus (seeds of every layer/protocol, hostile structures, every truncation length of the seeds, byte-level "
        "mutations, frames sourced from the responder's own / broadcast / multicast MAC, established TCP flows with later segments "
        "carrying arbitrary acknowledgement numbers and control segments) and the reply-eliciting mix, under the console and the "
        "logfmt logger, self-IP list / deny list absent and present; for every frame the stdout lines between two driver markers "
        "are parsed by independent parsers of both formats and must be a word of eth-recv [L3-recv [L4-recv L4-term] L3-term] "
        "eth-term with one recv and one terminal event per layer, inner send only under outer send, Ethernet terminal = send "
        "exactly when a frame was returned, the layers logged equal to the layers the frame reaches under the scope model "
        "(authorised MAC, EtherType, minimum header sizes, self-IP / deny filters, protocol numbers), every printed MAC / IP / port "
        "equal to the frame's (destination port + 1 allowed in send events after a STUN change-port), every line syntactically "
        "complete. Non-trivial = frames with at least two layers logged; distinct = distinct (logger, event word, drop depth, frame "
        "class).")
ASSUME = ["the driver delimits the per-frame output exactly (markers are printed after reply() returns, stdout is line-buffered by the same process)",
          "frames that panic are excluded (C01 owns them); none occur on the repaired tree"]


def expected_layers(f, cfg):
    q = pkt.parse(f)
    if "etype" not in q:
        return []
    out = ["eth"]
    if q.eth_dst not in auth_macs(cfg):
        return out
    if q.etype == ET_ARP:
        if len(q.l3) >= 28:
            out.append("arp")
        return out
    if "v" not in q:
        return out
    out.append("ipv4" if q.v == 4 else "ipv6")
    if cfg.selfips and q.dst not in cfg.selfips and not (q.v == 6 and q.proto == P_ICMP6):
        return out
    if cfg.deny and q.src in cfg.deny:
        return out
    l4 = q.get("l4", b"")
    if q.v == 4 and q.proto == P_ICMP and len(l4) >= 4:
        out.append("icmpv4")
    elif q.v == 6 and q.proto == P_ICMP6 and len(l4) >= 4:
        out.append("icmpv6")
    elif q.proto == P_TCP and len(l4) >= 20:
        out.append("tcp")
    elif q.proto == P_UDP and len(l4) >= 8:
        out.append("udp")
    return out


def check_reach(ctx, f, r, cfg):
    if r.kind == "P" or len(f) < 14:
        return
    evs, errs = monitors.log_events(r, cfg)
    if errs:
        return      # syntax problems are reported by the universal monitor
    logged = [e.proto for e in evs if e.verb == "recv"]
    want = expected_layers(f, cfg)
    if logged != want:
        ctx.violation("reach:%s" % ("missing" if len(logged) < len(want) else "extra"),
                      "layers logged %s, layers the frame reaches %s: %s [%s]" % (logged, want, pkt.summary(f), monitors.log_word(evs)),
                      observed=monitors.log_word(evs), expected=" ".join(want), frames=[f])
    word = monitors.log_word(evs)
    if len(logged) >= 2:
        q = pkt.parse(f)
        ctx.nontrivial(cfg.logger, word, q.get("etype"), q.get("proto"), len(f) < 64)
    ctx.extra.setdefault("event_words", {})
    ew = ctx.extra["event_words"]
    ew[word] = ew.get(word, 0) + 1


def shard(ctx, budget_s):
    rng = ctx.rng
    deadline = time.time() + budget_s
    n = 0
    while time.time() < deadline or n == 0:
        cfg = gen.rnd_config(rng, logger="c" if (n + ctx.shard) % 2 == 0 else "l", level=rng.choice([0, 0, 3, 5]), single_family=True)
        ctx.case(cfg)

        def on_reply(f, r, tag):
            check_reach(ctx, f, r, cfg)
        workloads.reply_mix(ctx, cfg, rounds=1, on_reply=on_reply)
        seeds = [f for _n, f in gen.l2l4_seeds(rng, cfg)] + [f for _n, f in gen.hostile_frames(rng, cfg)]
        for name, p in gen.hostile_payloads(rng)[::3]:
            e = gen.endp(rng, cfg, rng.random() < 0.5)
            seeds.append(e.udp(gen.rnd_port(rng), gen.rnd_port(rng), p))
        # out-of-scope variants: foreign MAC, foreign destination, denied source
        for f in list(seeds[:40]):
            seeds.append(gen.rnd_mac(rng) + f[6:])
        if cfg.deny:
            for a in cfg.deny:
                e = pkt.Endp(gen.rnd_mac(rng), cfg.mac, a, gen.rnd_ip6(rng) if len(a) == 16 else gen.rnd_ip4(rng))
                seeds.append(e.echo(1, 1, b"denied"))
                seeds.append(e.udp(1, 2, b"denied"))
        # unusual Ethernet sources: the responder's own MAC, broadcast, multicast, zero
        for f in list(seeds[:30]):
            seeds.append(f[:6] + rng.choice([cfg.mac, pkt.BCAST, b"\0" * 6, b"\x33\x33\0\0\0\x01"]) + f[12:])
        batch = list(seeds)
        for f in seeds:
            if len(f) <= 120 and rng.random() < 0.3:
                batch.extend(gen.truncations(f))
        for _ in range(1500):
            f = rng.choice(seeds)
            batch.append(gen.mutate(rng, f, lo=rng.choice([0, 6, 12, 14, 14, 34, 54])))
        ctx.case(reset=False, record=False)
        for i in range(0, len(batch), 500):
            fs = batch[i:i + 500]
            for f, r in zip(fs, ctx.send_many(fs)):
                check_reach(ctx, f, r, cfg)
        ctx.stats["frames_checked"] += len(batch)
        # established flows: later segments with arbitrary acknowledgement numbers, control segments in between
        ctx.case(reset=False)
        for _ in range(12):
            e = gen.endp(rng, cfg, rng.random() < 0.5)
            fl = Flow.fresh(ctx, e)
            r = ctx.send(fl.syn_frame())
            check_reach(ctx, ctx.history[-1], r, cfg)
            a = pkt.parse(r.reply) if r.kind == "R" else {}
            if a.get("flags") != 0x12:
                continue
            fl.cookie, fl.ack = a["seq"], (a["seq"] + 1) & 0xFFFFFFFF
            name, u, t = rng.choice(gen.app_requests(rng))
            for seg in cut(t, sorted(rng.randrange(0, len(t) + 1) for _c in range(rng.choice([0, 1, 2])))) + [b"more", b""]:
                ack = rng.choice([None, None, rng.getrandbits(32), 0, fl.cookie])
                r = fl.data(seg, ack=ack)
                check_reach(ctx, ctx.history[-1], r, cfg)
                if rng.random() < 0.2:
                    f2 = fl.data_frame(b"", flags=rng.choice([0x10, 0x11, 0x04, 0x02]))
                    check_reach(ctx, f2, ctx.send(f2), cfg)
            ctx.stats["established_flows"] += 1
        n += 1
    if ctx.shard == 0:
        for w in list(ctx.extra.get("event_words", {}))[:4]:
            ctx.sample({"event_word": w})


def run(tier, seed):
    v = core.Verdict(PROP, tier, seed)
    v.merge(core.run_shards(shard, PROP, tier, seed, budget_s=25 if tier == "quick" else 300))
    v.extra["distinct_event_words"] = len(v.extra.get("event_words", {}))
    return v.finish(RULE, floor=50, assumptions=ASSUME)
