"""C17 - SMB1/SMB2: negotiate/session-setup replies framed, correlated, consistent."""
import struct
import time

from .. import core, gen, pkt, sigref
from ..applab import AppLab
from ..protos import smb

PROP = "C17"
RULE = ("SMB1/SMB2 Negotiate and Session-Setup requests inside a NetBIOS session message with random and boundary "
        "correlation ids (PID high/low, TID, UID, MID; MessageId, AsyncId, SessionId), arbitrary request flags without the reply "
        "bit, dialect lists of 1..12 entries with permutations, duplicates and unknown dialects, security blobs of 1..3500 bytes, "
        "over UDP and validated TCP flows (one segment, and Negotiate / Session-Setup dialogues of 2-5 requests on one connection); every response is decoded by independent NBSS/SMB1/SMB2 codecs (NBSS "
        "length, reply flag, command and ids echoed, WordCount/ByteCount, DialectIndex < offered, DialectRevision offered, "
        "security buffer offset+length == end of message); SMB1 lists with repeated dialects must select the same dialect (by name) as "
        "without the repetitions. Requests of up to 3.5 KB (blobs up to 3500 bytes, hundreds of dialects). Negative: SMB2 negotiate whose DialectCount (0..3) covers unsupported revisions only while supported ones follow as trailing bytes, reply flag set, every other command value 0..255 (SMB1) "
        "and sampled 16-bit commands (SMB2), SMB2 negotiate without any supported dialect, and proper prefixes, must stay "
        "unanswered. Non-trivial = every judged case; distinct = distinct (kind, ids class, dialect list / blob length, transport).")
ASSUME = ["session-setup requests carry a non-empty security blob (extended security)",
          "SMB1 negotiate requests carry at least one dialect and a ByteCount matching the dialect list"]


def expect_silence(ctx, lab, payload, why, tr):
    a = lab.ask(payload, tr)
    ctx.stats["negative_" + why] += 1
    ctx.nontrivial("neg", why, payload[4:40], tr)
    if a.rep is not None:
        ctx.violation("answered:" + why, "SMB message that must not be answered (%s) got %s over %s" % (why, a.rep[:24].hex(), tr),
                      observed=a.rep.hex()[:300], expected="silence")


def shard(ctx, budget_s):
    rng = ctx.rng
    deadline = time.time() + budget_s
    n = 0
    allcmds = list(range(ctx.shard, 256, ctx.nshards))
    while time.time() < deadline or n == 0:
        cfg = gen.rnd_config(rng, deny=False, logger=rng.choice("nnncl"), level=rng.choice([0, 0, 2, 3, 4, 5]))
        ctx.case(cfg)
        lab = AppLab(ctx, cfg)
        for _ in range(40):
            req = smb.gen_request(rng)
            tr = rng.choice(["tcp", "tcp", "udp"])
            want = sigref.SMB1 if req["kind"].startswith("smb1") else sigref.SMB2
            if sigref.identify(req["payload"], tr == "udp") != want:
                ctx.stats["skipped_not_smb_by_reference"] += 1
                continue
            a = lab.ask(req["payload"], tr)
            errs = smb.check_response(a.rep, req)
            ctx.stats["positive_" + req["kind"]] += 1
            ctx.nontrivial(req["kind"], repr(sorted(req["ids"].items())), repr(req.get("dialects")), len(req["payload"]), tr)
            if tr == "tcp" and rng.random() < 0.3:
                rr = lab.positive_segmented(req["payload"], smb.is_smb_response, req["kind"], min_sig=8, only_sig=True)
                if rr is not None:
                    errs = errs + smb.check_response(rr, req)
            for e in errs:
                ctx.violation("response:%s:%s" % (req["kind"], e.split(" ")[0]), "%s; %s request%s" % (
                    e, req["kind"], " dialects=%r" % (req.get("dialects"),) if "dialects" in req else ""),
                    observed=(a.rep or b"").hex()[:300], expected="matching response")
            if ctx.shard == 0 and len(ctx.samples) < 3:
                ctx.sample({"kind": req["kind"], "request": req["payload"].hex()[:200]})
        # ---- a dialogue on one connection: Negotiate, then Session-Setup(s), each acknowledging the previous response
        for _ in range(4):
            fam = rng.choice(["smb1", "smb2"])
            reqs = [smb.gen_request(rng, fam + "_neg")] + [smb.gen_request(rng, fam + "_sess") for _x in range(rng.randrange(1, 4))]
            if rng.random() < 0.2:
                reqs.insert(1, smb.gen_request(rng, fam + "_neg"))       # a client that negotiates twice
            want = sigref.SMB1 if fam == "smb1" else sigref.SMB2
            if any(sigref.identify(q["payload"], False) != want for q in reqs):
                continue
            reps = lab.dialogue([q["payload"] for q in reqs])
            if reps is None:
                continue
            ctx.stats["dialogues"] += 1
            for i, (q, rep) in enumerate(zip(reqs, reps)):
                ctx.nontrivial("dialogue", fam, i, q["kind"], len(q["payload"]))
                for e in smb.check_response(rep, q):
                    ctx.violation("dialogue:%s:%s" % (q["kind"], e.split(" ")[0]), "%s; request #%d (%s) of a %d-request dialogue on one connection" % (e, i, q["kind"], len(reqs)),
                                  observed=(rep or b"").hex()[:300], expected="matching response")
        # ---- SMB1: offering a dialect twice adds no option - the dialect selected (by name) must not change
        for _ in range(6):
            base = [rng.choice(smb.SMB1_DIALECTS) for _x in range(rng.randrange(1, 6))]
            dup = list(base)
            for _x in range(rng.randrange(1, 4)):
                dup.insert(rng.randrange(1, len(dup) + 1), rng.choice(dup))
            names = []
            for dl in (base, dup):
                m = smb.nbss(smb.smb1_header(0x72, mid=rng.getrandbits(16)) + smb.smb1_negotiate_body(dl))
                a = lab.ask(m, "tcp")
                idx = None
                if a.rep is not None and len(a.rep) >= 4 + 32 + 3 and a.rep[4:8] == b"\xffSMB" and a.rep[36] == 17:
                    idx = struct.unpack("<H", a.rep[37:39])[0]
                names.append(dl[idx] if idx is not None and idx < len(dl) else None)
            ctx.stats["smb1_duplicate_pairs"] += 1
            ctx.nontrivial("dup", repr(base), repr(dup))
            if names[0] != names[1]:
                ctx.violation("smb1_selection_changed_by_duplicates", "offering %r selects %r, offering the same dialects with repetitions %r selects %r" % (
                    base, names[0], dup, names[1]), observed=repr(names[1]), expected=repr(names[0]))
        # ---- negatives
        ids = smb.rnd_ids(rng)
        neg1 = smb.smb1_negotiate_body([b"NT LM 0.12", b"SMB 2.002"])
        tr = rng.choice(["tcp", "udp"])
        expect_silence(ctx, lab, smb.nbss(smb.smb1_header(0x72, flags=0x80 | rng.getrandbits(7), mid=ids["mid"]) + neg1), "smb1_reply_flag", tr)
        expect_silence(ctx, lab, smb.nbss(smb.smb1_header(0x73, flags=0x98) + smb.smb1_session_setup_body(b"blob")), "smb1_reply_flag", tr)
        expect_silence(ctx, lab, smb.nbss(smb.smb2_header(0, flags=1 | (rng.getrandbits(31) << 1), msgid=ids["msgid"]) + smb.smb2_negotiate_body([0x0202])), "smb2_reply_flag", tr)
        expect_silence(ctx, lab, smb.nbss(smb.smb2_header(1, flags=1) + smb.smb2_session_setup_body(b"blob")), "smb2_reply_flag", tr)
        for cmd in (allcmds if n == 0 else [rng.randrange(256) for _ in range(4)]):
            if cmd not in (0x72, 0x73):
                expect_silence(ctx, lab, smb.nbss(smb.smb1_header(cmd) + rng.choice([neg1, smb.smb1_session_setup_body(b"blob")])), "smb1_other_command", tr)
            if cmd not in (0, 1):
                expect_silence(ctx, lab, smb.nbss(smb.smb2_header(cmd) + smb.smb2_negotiate_body([0x0202])), "smb2_other_command", tr)
        for cmd in (0x0100, 0x0101, 0x8000, 0xFFFF, rng.randrange(2, 65536)):
            expect_silence(ctx, lab, smb.nbss(smb.smb2_header(cmd) + smb.smb2_session_setup_body(b"blob")), "smb2_other_command", tr)
        unsup = [rng.choice([0x0000, 0x0100, 0x0201, 0x0312, 0xFFFF, 0x0203, 0x0001]) for _ in range(rng.randrange(1, 6))]
        expect_silence(ctx, lab, smb.nbss(smb.smb2_header(0) + smb.smb2_negotiate_body(sorted(set(unsup)))), "smb2_no_supported_dialect", tr)
        # DialectCount smaller than the list that follows: only the first DialectCount entries are offered.  With none of
        # those supported (DialectCount 0 included) the supported revisions behind them are trailing bytes, not an offer
        k = rng.choice([0, 0, 1, 2, 3])
        lead = [rng.choice([0x0000, 0x0100, 0x0201, 0x0312, 0xFFFF, 0x0203]) for _ in range(k)]
        trail = [rng.choice(smb.SMB2_SUPPORTED) for _ in range(rng.randrange(1, 5))]
        expect_silence(ctx, lab, smb.nbss(smb.smb2_header(0, msgid=ids["msgid"]) + smb.smb2_negotiate_body(lead + trail, count=k)), "smb2_supported_dialect_beyond_count", tr)
        req = smb.gen_request(rng)
        cutp = rng.randrange(8, len(req["payload"]) - 1)
        # a proper prefix that stops before the security blob / dialect list is complete
        if req["kind"] in ("smb1_neg", "smb2_neg"):
            expect_silence(ctx, lab, req["payload"][:cutp], "prefix", "udp")
        n += 1


def run(tier, seed):
    v = core.Verdict(PROP, tier, seed)
    v.merge(core.run_shards(shard, PROP, tier, seed, budget_s=20 if tier == "quick" else 200))
    return v.finish(RULE, floor=500, assumptions=ASSUME)
