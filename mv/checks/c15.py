"""C15 - STUN: binding requests get a success response reflecting the observed address."""
import struct
import time

from .. import core, gen, pkt, sigref
from ..applab import AppLab
from ..flow import Flow, app_payload
from ..pkt import ACK
from ..protos import stun

PROP = "C15"
RULE = ("binding requests in every form the signature set recognises (magic cookie with length 0 / 8 / 0x100..0x3fc and "
        "attribute lists of unknown types, RFC 3489 without cookie, with and without CHANGE-REQUEST) from every source port "
        "0..65535 (partitioned over the shards) and random ports, retransmissions of the same request (same transaction id and address) from other source ports, random logger / verbosity settings, IPv4 and IPv6, UDP and validated TCP flows; the response is "
        "decoded by an independent STUN codec (type 0x0101, 128-bit id, length, MAPPED-ADDRESS family/address/port) and the "
        "reply source port must be destination+1 mod 2^16 exactly when one change-port CHANGE-REQUEST is present (destination "
        "ports 65535/65534/0 included). Negative: every other class/method (all 2^14 type values sampled, one-bit neighbours of "
        "0x0001 systematically) sent on a flow that already carried a binding request, and directly over UDP, must get no STUN "
        "response; malformed TLV lists must be ignored or answered well-formedly. Cases on which reference and compiled matcher "
        "disagree are skipped (C10). Non-trivial = every judged case; distinct = distinct (form, ip version, transport, ports, id).")
ASSUME = ["attribute lengths are multiples of 4 in the must-answer set (RFC 5389 padding is otherwise ambiguous)",
          "messages not identified as STUN by both matchers belong to C10"]


def positive(ctx, lab, form, v6, tr, sp=None, dp=None, reuse=None):
    rng = ctx.rng
    req, tid, ncp = stun.gen_request(rng, form) if reuse is None else reuse
    if lab.identified(req, tr) != sigref.STUN:
        ctx.stats["skipped_matcher_disagreement"] += 1
        return
    a = lab.ask(req, tr, v6=v6, sp=sp, dp=dp, e=getattr(lab, "_pin_e", None))
    lab._last = (req, tid, ncp, a.e)
    ctx.stats["positive_%s_%s" % (form, tr)] += 1
    ctx.nontrivial("pos", form, v6, tr, a.sp, a.dp, tid)
    errs = stun.check_response(a.rep, tid, a.e.cip, a.sp)
    if a.res is not None and a.res.kind == "R" and a.rep is not None:
        rp = pkt.parse(a.res.reply)
        want = (a.dp + (1 if ncp == 1 else 0)) & 0xFFFF
        if rp.get("sp") != want:
            errs.append("change_port reply source port %s, expected %d (destination %d, %d change-port attribute)" % (rp.get("sp"), want, a.dp, ncp))
    for e in errs:
        ctx.violation("response:" + e.split(" ")[0], "%s; %s request over %s/IPv%d from port %d" % (e, form, tr, 6 if v6 else 4, a.sp),
                      observed=(a.rep or b"").hex()[:300], expected="binding success response")


def negative_types(ctx, lab, types):
    """Other classes/methods on a TCP flow that was identified as STUN by a first binding request."""
    rng = ctx.rng
    for t in types:
        e = gen.endp(rng, lab.cfg, rng.random() < 0.5)
        f = Flow.fresh(ctx, e)
        if f.syn() is None:
            continue
        first, tid, _ = stun.gen_request(rng, "magic_long")
        r1 = f.data(first)
        if not stun.is_stun_response(app_payload(r1)):
            ctx.stats["negative_setup_failed"] += 1
            continue
        m = stun.msg(t, stun.gen_tid(rng, True), stun.gen_attrs(rng, 4 * rng.randrange(0, 8)))
        r2 = f.data(m)
        rep = app_payload(r2)
        ctx.stats["negative_type_tcp"] += 1
        ctx.nontrivial("neg", t)
        if stun.is_stun_response(rep):
            ctx.violation("answered_type:%04x" % t, "STUN message of type %04x (not a binding request) got a STUN response %s" % (t, rep[:24].hex()),
                          observed=rep.hex()[:200], expected="no STUN response")
        # the same message directly over UDP
        a = lab.ask(m, "udp")
        ctx.stats["negative_type_udp"] += 1
        if stun.is_stun_response(a.rep):
            ctx.violation("answered_type:%04x" % t, "STUN message of type %04x over UDP got a STUN response" % t, observed=a.rep.hex()[:200])


def malformed(ctx, lab):
    rng = ctx.rng
    t = stun.gen_tid(rng, True)
    pad = stun.attr(0x8022, bytes(0x100))
    bads = [struct.pack("!HH", 0x8022, 0x200) + bytes(8), struct.pack("!HH", 1, 8) + b"\0\x03\x12\x34\x01\x02\x03\x04", struct.pack("!HH", 1, 0) + b"\0\0",
            struct.pack("!HH", 1, 4) + b"\0\x02\0\0\0", struct.pack("!HH", 3, 0) + b"\0\0", struct.pack("!HH", 3, 1) + b"\x02\0",
            struct.pack("!HH", 1, 20) + b"\0\x02\x12\x34" + bytes(5), struct.pack("!HH", 1, 0xFFFF) + bytes(6), b"\0", b"\0\x01\0"]
    for bad in bads:
        for body in (pad + bad, bad + pad):
            m = stun.msg(1, t, body)
            if lab.identified(m, "udp") != sigref.STUN:
                continue
            a = lab.ask(m, "udp")
            ctx.stats["malformed"] += 1
            ctx.nontrivial("malformed", bad, body is pad)
            if a.rep is not None:
                for e in stun.check_response(a.rep, t, a.e.cip, a.sp):
                    ctx.violation("malformed_response:" + e.split(" ")[0], e + "; request with malformed attribute list", observed=a.rep.hex()[:200])


def length_lies(ctx, lab):
    """Message-length fields that point beyond the datagram (up to the 16-bit maximum, where 20 + length wraps): such a
    request cannot be answered correctly; whatever is answered must be a correct response, and nothing may crash."""
    rng = ctx.rng
    t = stun.gen_tid(rng, True)
    for body in (b"", stun.attr(0x8022, bytes(0x100)), stun.gen_attrs(rng, 4 * rng.randrange(0x40, 0x60))):
        for L in (len(body) + 4, len(body) + 0x100, 0x0100, 0x7FFC, 0x8000, 0xFFEB, 0xFFEC, 0xFFF0, 0xFFFC, 0xFFFF, rng.randrange(0x100, 0x10000)):
            if L <= len(body):
                continue
            m = stun.msg(1, t, body, length=L)
            if lab.identified(m, "udp") != sigref.STUN:
                continue
            a = lab.ask(m, rng.choice(["udp", "udp", "tcp"]))
            ctx.stats["length_lies"] += 1
            ctx.nontrivial("length_lie", len(body), L)
            if a.rep is not None and stun.is_stun_response(a.rep):
                ctx.violation("answered:length_beyond_data", "binding request whose length field (%d) points %d bytes beyond the message was answered" % (
                    L, L - len(body)), observed=a.rep.hex()[:200], expected="silence")
    # after the lot: an ordinary request is still answered (the responder is alive)
    positive(ctx, lab, "magic_empty", v6=False, tr="udp")


def shard(ctx, budget_s):
    rng = ctx.rng
    deadline = time.time() + budget_s
    cfg = gen.rnd_config(rng, deny=False, logger="n", level=0)
    ctx.case(cfg)
    lab = AppLab(ctx, cfg)
    # every source port once (partitioned), UDP, alternating forms and IP versions
    forms = ["magic_empty", "magic_long", "magic_long_cr", "legacy_empty", "legacy_cr", "magic_cr8"]
    ports = list(range(ctx.shard, 65536, ctx.nshards))
    if ctx.tier == "quick":
        ports = ports[::4] + [65535 - ctx.shard]
    for i, sp in enumerate(ports):
        positive(ctx, lab, forms[i % len(forms)], v6=bool(i & 1), tr="udp", sp=sp, dp=rng.choice([65535, 65534, 0, 3478, gen.rnd_port(rng)]))
    # systematic negatives: one-bit neighbours of 0x0001 and all class/method corner values
    if ctx.shard == 0:
        negative_types(ctx, lab, [0x0001 ^ (1 << b) for b in range(14)] + [0x0101, 0x0111, 0x0011, 0x0002, 0x0003, 0x0102, 0x3FFF, 0x3EEF, 0x0081, 0x0201, 0x1001, 0x2001])
    n = 0
    while time.time() < deadline or n == 0:
        cfg = gen.rnd_config(rng, deny=False, logger=rng.choice("nnncl"), level=rng.choice([0, 0, 2, 3, 4, 5]))
        ctx.case(cfg)
        lab = AppLab(ctx, cfg)
        for _ in range(30):
            positive(ctx, lab, rng.choice(forms), v6=rng.random() < 0.5, tr=rng.choice(["udp", "tcp"]),
                     dp=rng.choice([65535, 65534, 0, gen.rnd_port(rng)]))
            if rng.random() < 0.3 and hasattr(lab, "_last"):
                # a client retransmitting the very same request (same transaction id, same address) from other source ports
                req, tid, ncp, e = lab._last
                lab._pin_e = e
                for _k in range(rng.choice([1, 2, 3])):
                    positive(ctx, lab, "retransmit", v6=e.v6, tr="udp", sp=gen.rnd_port(rng), reuse=(req, tid, ncp))
                lab._pin_e = None
        negative_types(ctx, lab, [t for t in (rng.randrange(0x4000) for _ in range(6)) if t != 1])
        malformed(ctx, lab)
        length_lies(ctx, lab)
        n += 1
    if ctx.shard == 0:
        r, t, k = stun.gen_request(rng, "magic_long_cr")
        ctx.sample({"request": r.hex()[:120], "change_port_attrs": k})


def run(tier, seed):
    v = core.Verdict(PROP, tier, seed)
    v.merge(core.run_shards(shard, PROP, tier, seed, budget_s=20 if tier == "quick" else 200))
    return v.finish(RULE, floor=500, assumptions=ASSUME)
