; ModuleID = 'probe4.6742b8ad97167253-cgu.0'
source_filename = "probe4.6742b8ad97167253-cgu.0"
target datalayout = "e-m:e-p270:32:32-p271:32:32-p272:64:64-i64:64-i128:128-f80:128-n8:16:32:64-S128"
target triple = "x86_64-unknown-linux-gnu"

$asan.module_ctor = comdat any

@llvm.used = appending global [1 x ptr] [ptr @asan.module_ctor], section "llvm.metadata"
@___asan_globals_registered = common hidden global i64 0
@__start_asan_globals = extern_weak hidden global i64
@__stop_asan_globals = extern_weak hidden global i64
@llvm.global_ctors = appending global [1 x { i32, ptr, ptr }] [{ i32, ptr, ptr } { i32 1, ptr @asan.module_ctor, ptr @asan.module_ctor }]

; probe4::probe
; Function Attrs: nonlazybind sanitize_address uwtable
define void @_RNvCs8RExDLrbfCF_6probe45probe() unnamed_addr #0 {
start:
  %0 = alloca [4 x i8], align 4
  call void @llvm.lifetime.start.p0(ptr %0)
  store i32 1, ptr %0, align 4
  %_0.i = load i32, ptr %0, align 4
  call void @llvm.lifetime.end.p0(ptr %0)
  ret void
}

; Function Attrs: nobuiltin nocallback nofree nosync nounwind willreturn
declare void @llvm.lifetime.start.p0(ptr captures(none)) #1

; Function Attrs: nocallback nofree nosync nounwind speculatable willreturn memory(none)
declare i32 @llvm.cttz.i32(i32, i1 immarg) #2

; Function Attrs: nobuiltin nocallback nofree nosync nounwind willreturn
declare void @llvm.lifetime.end.p0(ptr captures(none)) #1

declare void @__asan_report_load_n(i64, i64)

declare void @__asan_loadN(i64, i64)

declare void @__asan_report_load1(i64)

declare void @__asan_load1(i64)

declare void @__asan_report_load2(i64)

declare void @__asan_load2(i64)

declare void @__asan_report_load4(i64)

declare void @__asan_load4(i64)

declare void @__asan_report_load8(i64)

declare void @__asan_load8(i64)

declare void @__asan_report_load16(i64)

declare void @__asan_load16(i64)

declare void @__asan_report_store_n(i64, i64)

declare void @__asan_storeN(i64, i64)

declare void @__asan_report_store1(i64)

declare void @__asan_store1(i64)

declare void @__asan_report_store2(i64)

declare void @__asan_store2(i64)

declare void @__asan_report_store4(i64)

declare void @__asan_store4(i64)

declare void @__asan_report_store8(i64)

declare void @__asan_store8(i64)

declare void @__asan_report_store16(i64)

declare void @__asan_store16(i64)

declare void @__asan_report_exp_load_n(i64, i64, i32)

declare void @__asan_exp_loadN(i64, i64, i32)

declare void @__asan_report_exp_load1(i64, i32)

declare void @__asan_exp_load1(i64, i32)

declare void @__asan_report_exp_load2(i64, i32)

declare void @__asan_exp_load2(i64, i32)

declare void @__asan_report_exp_load4(i64, i32)

declare void @__asan_exp_load4(i64, i32)

declare void @__asan_report_exp_load8(i64, i32)

declare void @__asan_exp_load8(i64, i32)

declare void @__asan_report_exp_load16(i64, i32)

declare void @__asan_exp_load16(i64, i32)

declare void @__asan_report_exp_store_n(i64, i64, i32)

declare void @__asan_exp_storeN(i64, i64, i32)

declare void @__asan_report_exp_store1(i64, i32)

declare void @__asan_exp_store1(i64, i32)

declare void @__asan_report_exp_store2(i64, i32)

declare void @__asan_exp_store2(i64, i32)

declare void @__asan_report_exp_store4(i64, i32)

declare void @__asan_exp_store4(i64, i32)

declare void @__asan_report_exp_store8(i64, i32)

declare void @__asan_exp_store8(i64, i32)

declare void @__asan_report_exp_store16(i64, i32)

declare void @__asan_exp_store16(i64, i32)

declare ptr @__asan_memmove(ptr, ptr, i64)

declare ptr @__asan_memcpy(ptr, ptr, i64)

declare ptr @__asan_memset(ptr, i32, i64)

declare void @__asan_handle_no_return()

declare void @__sanitizer_ptr_cmp(i64, i64)

declare void @__sanitizer_ptr_sub(i64, i64)

; Function Attrs: nocallback nocreateundeforpoison nofree nosync nounwind speculatable willreturn memory(none)
declare i1 @llvm.amdgcn.is.shared(ptr) #3

; Function Attrs: nocallback nocreateundeforpoison nofree nosync nounwind speculatable willreturn memory(none)
declare i1 @llvm.amdgcn.is.private(ptr) #3

declare void @__asan_before_dynamic_init(i64)

declare void @__asan_after_dynamic_init()

declare void @__asan_register_globals(i64, i64)

declare void @__asan_unregister_globals(i64, i64)

declare void @__asan_register_image_globals(i64)

declare void @__asan_unregister_image_globals(i64)

declare void @__asan_register_elf_globals(i64, i64, i64)

declare void @__asan_unregister_elf_globals(i64, i64, i64)

declare void @__asan_init()

; Function Attrs: nounwind
define internal void @asan.module_ctor() #4 comdat {
  call void @__asan_init()
  call void @__asan_version_mismatch_check_v8()
  call void @__asan_register_elf_globals(i64 ptrtoint (ptr @___asan_globals_registered to i64), i64 ptrtoint (ptr @__start_asan_globals to i64), i64 ptrtoint (ptr @__stop_asan_globals to i64))
  ret void
}

declare void @__asan_version_mismatch_check_v8()

attributes #0 = { nonlazybind sanitize_address uwtable "frame-pointer"="all" "target-cpu"="x86-64" }
attributes #1 = { nobuiltin nocallback nofree nosync nounwind willreturn }
attributes #2 = { nocallback nofree nosync nounwind speculatable willreturn memory(none) }
attributes #3 = { nocallback nocreateundeforpoison nofree nosync nounwind speculatable willreturn memory(none) }
attributes #4 = { nounwind }

!llvm.module.flags = !{!0, !1, !2}
!llvm.ident = !{!3}

!0 = !{i32 8, !"PIC Level", i32 2}
!1 = !{i32 2, !"RtLibUseGOT", i32 1}
!2 = !{i32 4, !"nosanitize_address", i32 1}
!3 = !{!"rustc version 1.97.0-nightly (ad3a598ca 2026-05-03)"}
