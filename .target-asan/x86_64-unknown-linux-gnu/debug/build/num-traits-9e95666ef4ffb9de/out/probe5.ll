; ModuleID = 'probe5.e1d0dfe292446c30-cgu.0'
source_filename = "probe5.e1d0dfe292446c30-cgu.0"
target datalayout = "e-m:e-p270:32:32-p271:32:32-p272:64:64-i64:64-i128:128-f80:128-n8:16:32:64-S128"
target triple = "x86_64-unknown-linux-gnu"

$asan.module_ctor = comdat any

$asan.module_dtor = comdat any

$alloc_2e38410fced2c310c68bdf2d45d0c3bd.3ba5c4d362b55e8da1cd5c44c911d7f9 = comdat any

$alloc_7971f3465817cc18ad816e3dbdd7087a.3ba5c4d362b55e8da1cd5c44c911d7f9 = comdat any

$alloc_1d9e4a30726589abce1472f3c301cfd2.3ba5c4d362b55e8da1cd5c44c911d7f9 = comdat any

@alloc_2e38410fced2c310c68bdf2d45d0c3bd = internal constant { [4 x i8], [28 x i8] } { [4 x i8] c"\02\00\00\00", [28 x i8] zeroinitializer }, comdat($alloc_2e38410fced2c310c68bdf2d45d0c3bd.3ba5c4d362b55e8da1cd5c44c911d7f9), align 32
@alloc_7971f3465817cc18ad816e3dbdd7087a = internal constant { [7 x i8], [25 x i8] } { [7 x i8] c"<anon>\00", [25 x i8] zeroinitializer }, comdat($alloc_7971f3465817cc18ad816e3dbdd7087a.3ba5c4d362b55e8da1cd5c44c911d7f9), align 32
@alloc_1d9e4a30726589abce1472f3c301cfd2 = internal constant { <{ ptr, [16 x i8] }>, [40 x i8] } { <{ ptr, [16 x i8] }> <{ ptr @alloc_7971f3465817cc18ad816e3dbdd7087a, [16 x i8] c"\06\00\00\00\00\00\00\00\01\00\00\00+\00\00\00" }>, [40 x i8] zeroinitializer }, comdat($alloc_1d9e4a30726589abce1472f3c301cfd2.3ba5c4d362b55e8da1cd5c44c911d7f9), align 32
@___asan_gen_global = private unnamed_addr constant [39 x i8] c"alloc_2e38410fced2c310c68bdf2d45d0c3bd\00", align 1
@___asan_gen_module = private constant [30 x i8] c"probe5.e1d0dfe292446c30-cgu.0\00", align 1
@___asan_gen_global.1 = private unnamed_addr constant [39 x i8] c"alloc_7971f3465817cc18ad816e3dbdd7087a\00", align 1
@___asan_gen_global.2 = private unnamed_addr constant [39 x i8] c"alloc_1d9e4a30726589abce1472f3c301cfd2\00", align 1
@__asan_global_alloc_2e38410fced2c310c68bdf2d45d0c3bd = private global { i64, i64, i64, i64, i64, i64, i64, i64 } { i64 ptrtoint (ptr @anon.6da169dbfac99adee23f8855623dc375.0 to i64), i64 4, i64 32, i64 ptrtoint (ptr @___asan_gen_global to i64), i64 ptrtoint (ptr @___asan_gen_module to i64), i64 0, i64 0, i64 -1 }, section "asan_globals", comdat($alloc_2e38410fced2c310c68bdf2d45d0c3bd.3ba5c4d362b55e8da1cd5c44c911d7f9), !associated !0
@__asan_global_alloc_7971f3465817cc18ad816e3dbdd7087a = private global { i64, i64, i64, i64, i64, i64, i64, i64 } { i64 ptrtoint (ptr @anon.6da169dbfac99adee23f8855623dc375.1 to i64), i64 7, i64 32, i64 ptrtoint (ptr @___asan_gen_global.1 to i64), i64 ptrtoint (ptr @___asan_gen_module to i64), i64 0, i64 0, i64 -1 }, section "asan_globals", comdat($alloc_7971f3465817cc18ad816e3dbdd7087a.3ba5c4d362b55e8da1cd5c44c911d7f9), !associated !1
@__asan_global_alloc_1d9e4a30726589abce1472f3c301cfd2 = private global { i64, i64, i64, i64, i64, i64, i64, i64 } { i64 ptrtoint (ptr @anon.6da169dbfac99adee23f8855623dc375.2 to i64), i64 24, i64 64, i64 ptrtoint (ptr @___asan_gen_global.2 to i64), i64 ptrtoint (ptr @___asan_gen_module to i64), i64 0, i64 0, i64 -1 }, section "asan_globals", comdat($alloc_1d9e4a30726589abce1472f3c301cfd2.3ba5c4d362b55e8da1cd5c44c911d7f9), !associated !2
@llvm.compiler.used = appending global [6 x ptr] [ptr @alloc_2e38410fced2c310c68bdf2d45d0c3bd, ptr @alloc_7971f3465817cc18ad816e3dbdd7087a, ptr @alloc_1d9e4a30726589abce1472f3c301cfd2, ptr @__asan_global_alloc_2e38410fced2c310c68bdf2d45d0c3bd, ptr @__asan_global_alloc_7971f3465817cc18ad816e3dbdd7087a, ptr @__asan_global_alloc_1d9e4a30726589abce1472f3c301cfd2], section "llvm.metadata"
@___asan_globals_registered = common hidden global i64 0
@__start_asan_globals = extern_weak hidden global i64
@__stop_asan_globals = extern_weak hidden global i64
@llvm.used = appending global [2 x ptr] [ptr @asan.module_ctor, ptr @asan.module_dtor], section "llvm.metadata"
@llvm.global_ctors = appending global [1 x { i32, ptr, ptr }] [{ i32, ptr, ptr } { i32 1, ptr @asan.module_ctor, ptr @asan.module_ctor }]
@llvm.global_dtors = appending global [1 x { i32, ptr, ptr }] [{ i32, ptr, ptr } { i32 1, ptr @asan.module_dtor, ptr @asan.module_dtor }]

@anon.6da169dbfac99adee23f8855623dc375.0 = private alias { [4 x i8], [28 x i8] }, ptr @alloc_2e38410fced2c310c68bdf2d45d0c3bd
@anon.6da169dbfac99adee23f8855623dc375.1 = private alias { [7 x i8], [25 x i8] }, ptr @alloc_7971f3465817cc18ad816e3dbdd7087a
@anon.6da169dbfac99adee23f8855623dc375.2 = private alias { <{ ptr, [16 x i8] }>, [40 x i8] }, ptr @alloc_1d9e4a30726589abce1472f3c301cfd2

; probe5::probe
; Function Attrs: nonlazybind sanitize_address uwtable
define void @_RNvCsjo0Ni8tRVpk_6probe55probe() unnamed_addr #0 {
start:
  %x = alloca [4 x i8], align 4
  call void @llvm.lifetime.start.p0(ptr %x)
  store i32 1, ptr %x, align 4
; call <i32 as core::ops::arith::AddAssign<&i32>>::add_assign
  call void @_RNvXs5R_NtNtCsanpdEcSfypT_4core3ops5arithlINtB6_9AddAssignRlE10add_assignCsjo0Ni8tRVpk_6probe5(ptr align 4 %x, ptr align 4 @alloc_2e38410fced2c310c68bdf2d45d0c3bd, ptr align 8 @alloc_1d9e4a30726589abce1472f3c301cfd2) #6
  call void @llvm.lifetime.end.p0(ptr %x)
  ret void
}

; <i32 as core::ops::arith::AddAssign<&i32>>::add_assign
; Function Attrs: inlinehint nonlazybind sanitize_address uwtable
define internal void @_RNvXs5R_NtNtCsanpdEcSfypT_4core3ops5arithlINtB6_9AddAssignRlE10add_assignCsjo0Ni8tRVpk_6probe5(ptr align 4 %self, ptr align 4 %other, ptr align 8 %0) unnamed_addr #1 {
start:
  %1 = ptrtoint ptr %other to i64
  %2 = lshr i64 %1, 3
  %3 = add i64 %2, 2147450880
  %4 = inttoptr i64 %3 to ptr
  %5 = load i8, ptr %4, align 1
  %6 = icmp ne i8 %5, 0
  br i1 %6, label %7, label %13, !prof !7

7:                                                ; preds = %start
  %8 = and i64 %1, 7
  %9 = add i64 %8, 3
  %10 = trunc i64 %9 to i8
  %11 = icmp sge i8 %10, %5
  br i1 %11, label %12, label %13

12:                                               ; preds = %7
  call void @__asan_report_load4(i64 %1) #7
  unreachable

13:                                               ; preds = %7, %start
  %other1 = load i32, ptr %other, align 4
  %14 = ptrtoint ptr %self to i64
  %15 = lshr i64 %14, 3
  %16 = add i64 %15, 2147450880
  %17 = inttoptr i64 %16 to ptr
  %18 = load i8, ptr %17, align 1
  %19 = icmp ne i8 %18, 0
  br i1 %19, label %20, label %26, !prof !7

20:                                               ; preds = %13
  %21 = and i64 %14, 7
  %22 = add i64 %21, 3
  %23 = trunc i64 %22 to i8
  %24 = icmp sge i8 %23, %18
  br i1 %24, label %25, label %26

25:                                               ; preds = %20
  call void @__asan_report_load4(i64 %14) #7
  unreachable

26:                                               ; preds = %20, %13
  %27 = load i32, ptr %self, align 4
  %28 = call { i32, i1 } @llvm.sadd.with.overflow.i32(i32 %27, i32 %other1)
  %_4.0 = extractvalue { i32, i1 } %28, 0
  %_4.1 = extractvalue { i32, i1 } %28, 1
  br i1 %_4.1, label %panic, label %bb1

bb1:                                              ; preds = %26
  %29 = ptrtoint ptr %self to i64
  %30 = lshr i64 %29, 3
  %31 = add i64 %30, 2147450880
  %32 = inttoptr i64 %31 to ptr
  %33 = load i8, ptr %32, align 1
  %34 = icmp ne i8 %33, 0
  br i1 %34, label %35, label %41, !prof !7

35:                                               ; preds = %bb1
  %36 = and i64 %29, 7
  %37 = add i64 %36, 3
  %38 = trunc i64 %37 to i8
  %39 = icmp sge i8 %38, %33
  br i1 %39, label %40, label %41

40:                                               ; preds = %35
  call void @__asan_report_store4(i64 %29) #7
  unreachable

41:                                               ; preds = %35, %bb1
  store i32 %_4.0, ptr %self, align 4
  ret void

panic:                                            ; preds = %26
  call void @__asan_handle_no_return()
; call core::panicking::panic_const::panic_const_add_overflow
  call void @_RNvNtNtCsanpdEcSfypT_4core9panicking11panic_const24panic_const_add_overflow(ptr align 8 %0) #8
  unreachable
}

; Function Attrs: nobuiltin nocallback nofree nosync nounwind willreturn
declare void @llvm.lifetime.start.p0(ptr captures(none)) #2

; Function Attrs: nobuiltin nocallback nofree nosync nounwind willreturn
declare void @llvm.lifetime.end.p0(ptr captures(none)) #2

; Function Attrs: nocallback nocreateundeforpoison nofree nosync nounwind speculatable willreturn memory(none)
declare { i32, i1 } @llvm.sadd.with.overflow.i32(i32, i32) #3

; core::panicking::panic_const::panic_const_add_overflow
; Function Attrs: cold noinline noreturn nonlazybind sanitize_address uwtable
declare void @_RNvNtNtCsanpdEcSfypT_4core9panicking11panic_const24panic_const_add_overflow(ptr align 8) unnamed_addr #4

declare void @__asan_report_load_n(i64, i64)

declare void @__asan_loadN(i64, i64)

declare void @__asan_report_load1(i64)

declare void @__asan_load1(i64)

declare void @__asan_report_load2(i64)

declare void @__asan_load2(i64)

declare void @__asan_report_load4(i64)

declare void @__asan_load4(i64)

declare void @__asan_report_load8(i64)

declare void @__asan_load8(i64)

declare void @__asan_report_load16(i64)

declare void @__asan_load16(i64)

declare void @__asan_report_store_n(i64, i64)

declare void @__asan_storeN(i64, i64)

declare void @__asan_report_store1(i64)

declare void @__asan_store1(i64)

declare void @__asan_report_store2(i64)

declare void @__asan_store2(i64)

declare void @__asan_report_store4(i64)

declare void @__asan_store4(i64)

declare void @__asan_report_store8(i64)

declare void @__asan_store8(i64)

declare void @__asan_report_store16(i64)

declare void @__asan_store16(i64)

declare void @__asan_report_exp_load_n(i64, i64, i32)

declare void @__asan_exp_loadN(i64, i64, i32)

declare void @__asan_report_exp_load1(i64, i32)

declare void @__asan_exp_load1(i64, i32)

declare void @__asan_report_exp_load2(i64, i32)

declare void @__asan_exp_load2(i64, i32)

declare void @__asan_report_exp_load4(i64, i32)

declare void @__asan_exp_load4(i64, i32)

declare void @__asan_report_exp_load8(i64, i32)

declare void @__asan_exp_load8(i64, i32)

declare void @__asan_report_exp_load16(i64, i32)

declare void @__asan_exp_load16(i64, i32)

declare void @__asan_report_exp_store_n(i64, i64, i32)

declare void @__asan_exp_storeN(i64, i64, i32)

declare void @__asan_report_exp_store1(i64, i32)

declare void @__asan_exp_store1(i64, i32)

declare void @__asan_report_exp_store2(i64, i32)

declare void @__asan_exp_store2(i64, i32)

declare void @__asan_report_exp_store4(i64, i32)

declare void @__asan_exp_store4(i64, i32)

declare void @__asan_report_exp_store8(i64, i32)

declare void @__asan_exp_store8(i64, i32)

declare void @__asan_report_exp_store16(i64, i32)

declare void @__asan_exp_store16(i64, i32)

declare ptr @__asan_memmove(ptr, ptr, i64)

declare ptr @__asan_memcpy(ptr, ptr, i64)

declare ptr @__asan_memset(ptr, i32, i64)

declare void @__asan_handle_no_return()

declare void @__sanitizer_ptr_cmp(i64, i64)

declare void @__sanitizer_ptr_sub(i64, i64)

; Function Attrs: nocallback nocreateundeforpoison nofree nosync nounwind speculatable willreturn memory(none)
declare i1 @llvm.amdgcn.is.shared(ptr) #3

; Function Attrs: nocallback nocreateundeforpoison nofree nosync nounwind speculatable willreturn memory(none)
declare i1 @llvm.amdgcn.is.private(ptr) #3

declare void @__asan_before_dynamic_init(i64)

declare void @__asan_after_dynamic_init()

declare void @__asan_register_globals(i64, i64)

declare void @__asan_unregister_globals(i64, i64)

declare void @__asan_register_image_globals(i64)

declare void @__asan_unregister_image_globals(i64)

declare void @__asan_register_elf_globals(i64, i64, i64)

declare void @__asan_unregister_elf_globals(i64, i64, i64)

declare void @__asan_init()

; Function Attrs: nounwind
define internal void @asan.module_ctor() #5 comdat {
  call void @__asan_init()
  call void @__asan_version_mismatch_check_v8()
  call void @__asan_register_elf_globals(i64 ptrtoint (ptr @___asan_globals_registered to i64), i64 ptrtoint (ptr @__start_asan_globals to i64), i64 ptrtoint (ptr @__stop_asan_globals to i64))
  ret void
}

declare void @__asan_version_mismatch_check_v8()

; Function Attrs: nounwind
define internal void @asan.module_dtor() #5 comdat {
  call void @__asan_unregister_elf_globals(i64 ptrtoint (ptr @___asan_globals_registered to i64), i64 ptrtoint (ptr @__start_asan_globals to i64), i64 ptrtoint (ptr @__stop_asan_globals to i64))
  ret void
}

attributes #0 = { nonlazybind sanitize_address uwtable "frame-pointer"="all" "target-cpu"="x86-64" }
attributes #1 = { inlinehint nonlazybind sanitize_address uwtable "frame-pointer"="all" "target-cpu"="x86-64" }
attributes #2 = { nobuiltin nocallback nofree nosync nounwind willreturn }
attributes #3 = { nocallback nocreateundeforpoison nofree nosync nounwind speculatable willreturn memory(none) }
attributes #4 = { cold noinline noreturn nonlazybind sanitize_address uwtable "frame-pointer"="all" "target-cpu"="x86-64" }
attributes #5 = { nounwind }
attributes #6 = { inlinehint }
attributes #7 = { nomerge }
attributes #8 = { noinline noreturn }

!llvm.module.flags = !{!3, !4, !5}
!llvm.ident = !{!6}

!0 = !{ptr @alloc_2e38410fced2c310c68bdf2d45d0c3bd}
!1 = !{ptr @alloc_7971f3465817cc18ad816e3dbdd7087a}
!2 = !{ptr @alloc_1d9e4a30726589abce1472f3c301cfd2}
!3 = !{i32 8, !"PIC Level", i32 2}
!4 = !{i32 2, !"RtLibUseGOT", i32 1}
!5 = !{i32 4, !"nosanitize_address", i32 1}
!6 = !{!"rustc version 1.97.0-nightly (ad3a598ca 2026-05-03)"}
!7 = !{!"branch_weights", i32 1, i32 1048575}
