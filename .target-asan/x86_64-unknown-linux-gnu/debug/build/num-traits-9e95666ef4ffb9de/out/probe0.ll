; ModuleID = 'probe0.6c2779e547e7c6b5-cgu.0'
source_filename = "probe0.6c2779e547e7c6b5-cgu.0"
target datalayout = "e-m:e-p270:32:32-p271:32:32-p272:64:64-i64:64-i128:128-f80:128-n8:16:32:64-S128"
target triple = "x86_64-unknown-linux-gnu"

$asan.module_ctor = comdat any

@llvm.used = appending global [1 x ptr] [ptr @asan.module_ctor], section "llvm.metadata"
@___asan_globals_registered = common hidden global i64 0
@__start_asan_globals = extern_weak hidden global i64
@__stop_asan_globals = extern_weak hidden global i64
@llvm.global_ctors = appending global [1 x { i32, ptr, ptr }] [{ i32, ptr, ptr } { i32 1, ptr @asan.module_ctor, ptr @asan.module_ctor }]

declare void @__asan_before_dynamic_init(i64)

declare void @__asan_after_dynamic_init()

declare void @__asan_register_globals(i64, i64)

declare void @__asan_unregister_globals(i64, i64)

declare void @__asan_register_image_globals(i64)

declare void @__asan_unregister_image_globals(i64)

declare void @__asan_register_elf_globals(i64, i64, i64)

declare void @__asan_unregister_elf_globals(i64, i64, i64)

declare void @__asan_init()

; Function Attrs: nounwind
define internal void @asan.module_ctor() #0 comdat {
  call void @__asan_init()
  call void @__asan_version_mismatch_check_v8()
  call void @__asan_register_elf_globals(i64 ptrtoint (ptr @___asan_globals_registered to i64), i64 ptrtoint (ptr @__start_asan_globals to i64), i64 ptrtoint (ptr @__stop_asan_globals to i64))
  ret void
}

declare void @__asan_version_mismatch_check_v8()

attributes #0 = { nounwind }

!llvm.module.flags = !{!0, !1, !2}
!llvm.ident = !{!3}

!0 = !{i32 8, !"PIC Level", i32 2}
!1 = !{i32 2, !"RtLibUseGOT", i32 1}
!2 = !{i32 4, !"nosanitize_address", i32 1}
!3 = !{!"rustc version 1.97.0-nightly (ad3a598ca 2026-05-03)"}
