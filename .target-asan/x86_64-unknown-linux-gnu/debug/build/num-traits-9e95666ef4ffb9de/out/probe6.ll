; ModuleID = 'probe6.1efc74f879027ab-cgu.0'
source_filename = "probe6.1efc74f879027ab-cgu.0"
target datalayout = "e-m:e-p270:32:32-p271:32:32-p272:64:64-i64:64-i128:128-f80:128-n8:16:32:64-S128"
target triple = "x86_64-unknown-linux-gnu"

$asan.module_ctor = comdat any

$asan.module_dtor = comdat any

$alloc_7971f3465817cc18ad816e3dbdd7087a.a1f7bad7112cdf23ade360677365bbc0 = comdat any

$alloc_9d40747e106cbf85f7bd532d58745d14.a1f7bad7112cdf23ade360677365bbc0 = comdat any

@alloc_7971f3465817cc18ad816e3dbdd7087a = internal constant { [7 x i8], [25 x i8] } { [7 x i8] c"<anon>\00", [25 x i8] zeroinitializer }, comdat($alloc_7971f3465817cc18ad816e3dbdd7087a.a1f7bad7112cdf23ade360677365bbc0), align 32
@alloc_9d40747e106cbf85f7bd532d58745d14 = internal constant { <{ ptr, [16 x i8] }>, [40 x i8] } { <{ ptr, [16 x i8] }> <{ ptr @alloc_7971f3465817cc18ad816e3dbdd7087a, [16 x i8] c"\06\00\00\00\00\00\00\00\01\00\00\00\1F\00\00\00" }>, [40 x i8] zeroinitializer }, comdat($alloc_9d40747e106cbf85f7bd532d58745d14.a1f7bad7112cdf23ade360677365bbc0), align 32
@___asan_gen_global = private unnamed_addr constant [39 x i8] c"alloc_7971f3465817cc18ad816e3dbdd7087a\00", align 1
@___asan_gen_module = private constant [29 x i8] c"probe6.1efc74f879027ab-cgu.0\00", align 1
@___asan_gen_global.1 = private unnamed_addr constant [39 x i8] c"alloc_9d40747e106cbf85f7bd532d58745d14\00", align 1
@__asan_global_alloc_7971f3465817cc18ad816e3dbdd7087a = private global { i64, i64, i64, i64, i64, i64, i64, i64 } { i64 ptrtoint (ptr @anon.2e9cc7fd452fefe051416520fadbdfa4.0 to i64), i64 7, i64 32, i64 ptrtoint (ptr @___asan_gen_global to i64), i64 ptrtoint (ptr @___asan_gen_module to i64), i64 0, i64 0, i64 -1 }, section "asan_globals", comdat($alloc_7971f3465817cc18ad816e3dbdd7087a.a1f7bad7112cdf23ade360677365bbc0), !associated !0
@__asan_global_alloc_9d40747e106cbf85f7bd532d58745d14 = private global { i64, i64, i64, i64, i64, i64, i64, i64 } { i64 ptrtoint (ptr @anon.2e9cc7fd452fefe051416520fadbdfa4.1 to i64), i64 24, i64 64, i64 ptrtoint (ptr @___asan_gen_global.1 to i64), i64 ptrtoint (ptr @___asan_gen_module to i64), i64 0, i64 0, i64 -1 }, section "asan_globals", comdat($alloc_9d40747e106cbf85f7bd532d58745d14.a1f7bad7112cdf23ade360677365bbc0), !associated !1
@llvm.compiler.used = appending global [4 x ptr] [ptr @alloc_7971f3465817cc18ad816e3dbdd7087a, ptr @alloc_9d40747e106cbf85f7bd532d58745d14, ptr @__asan_global_alloc_7971f3465817cc18ad816e3dbdd7087a, ptr @__asan_global_alloc_9d40747e106cbf85f7bd532d58745d14], section "llvm.metadata"
@___asan_globals_registered = common hidden global i64 0
@__start_asan_globals = extern_weak hidden global i64
@__stop_asan_globals = extern_weak hidden global i64
@llvm.used = appending global [2 x ptr] [ptr @asan.module_ctor, ptr @asan.module_dtor], section "llvm.metadata"
@llvm.global_ctors = appending global [1 x { i32, ptr, ptr }] [{ i32, ptr, ptr } { i32 1, ptr @asan.module_ctor, ptr @asan.module_ctor }]
@llvm.global_dtors = appending global [1 x { i32, ptr, ptr }] [{ i32, ptr, ptr } { i32 1, ptr @asan.module_dtor, ptr @asan.module_dtor }]

@anon.2e9cc7fd452fefe051416520fadbdfa4.0 = private alias { [7 x i8], [25 x i8] }, ptr @alloc_7971f3465817cc18ad816e3dbdd7087a
@anon.2e9cc7fd452fefe051416520fadbdfa4.1 = private alias { <{ ptr, [16 x i8] }>, [40 x i8] }, ptr @alloc_9d40747e106cbf85f7bd532d58745d14

; probe6::probe
; Function Attrs: nonlazybind sanitize_address uwtable
define void @_RNvCsaj8uWmBVSV_6probe65probe() unnamed_addr #0 {
start:
  ret void
}

; core::panicking::panic_const::panic_const_div_by_zero
; Function Attrs: cold noinline noreturn nonlazybind sanitize_address uwtable
declare void @_RNvNtNtCsanpdEcSfypT_4core9panicking11panic_const23panic_const_div_by_zero(ptr align 8) unnamed_addr #1

declare void @__asan_report_load_n(i64, i64)

declare void @__asan_loadN(i64, i64)

declare void @__asan_report_load1(i64)

declare void @__asan_load1(i64)

declare void @__asan_report_load2(i64)

declare void @__asan_load2(i64)

declare void @__asan_report_load4(i64)

declare void @__asan_load4(i64)

declare void @__asan_report_load8(i64)

declare void @__asan_load8(i64)

declare void @__asan_report_load16(i64)

declare void @__asan_load16(i64)

declare void @__asan_report_store_n(i64, i64)

declare void @__asan_storeN(i64, i64)

declare void @__asan_report_store1(i64)

declare void @__asan_store1(i64)

declare void @__asan_report_store2(i64)

declare void @__asan_store2(i64)

declare void @__asan_report_store4(i64)

declare void @__asan_store4(i64)

declare void @__asan_report_store8(i64)

declare void @__asan_store8(i64)

declare void @__asan_report_store16(i64)

declare void @__asan_store16(i64)

declare void @__asan_report_exp_load_n(i64, i64, i32)

declare void @__asan_exp_loadN(i64, i64, i32)

declare void @__asan_report_exp_load1(i64, i32)

declare void @__asan_exp_load1(i64, i32)

declare void @__asan_report_exp_load2(i64, i32)

declare void @__asan_exp_load2(i64, i32)

declare void @__asan_report_exp_load4(i64, i32)

declare void @__asan_exp_load4(i64, i32)

declare void @__asan_report_exp_load8(i64, i32)

declare void @__asan_exp_load8(i64, i32)

declare void @__asan_report_exp_load16(i64, i32)

declare void @__asan_exp_load16(i64, i32)

declare void @__asan_report_exp_store_n(i64, i64, i32)

declare void @__asan_exp_storeN(i64, i64, i32)

declare void @__asan_report_exp_store1(i64, i32)

declare void @__asan_exp_store1(i64, i32)

declare void @__asan_report_exp_store2(i64, i32)

declare void @__asan_exp_store2(i64, i32)

declare void @__asan_report_exp_store4(i64, i32)

declare void @__asan_exp_store4(i64, i32)

declare void @__asan_report_exp_store8(i64, i32)

declare void @__asan_exp_store8(i64, i32)

declare void @__asan_report_exp_store16(i64, i32)

declare void @__asan_exp_store16(i64, i32)

declare ptr @__asan_memmove(ptr, ptr, i64)

declare ptr @__asan_memcpy(ptr, ptr, i64)

declare ptr @__asan_memset(ptr, i32, i64)

declare void @__asan_handle_no_return()

declare void @__sanitizer_ptr_cmp(i64, i64)

declare void @__sanitizer_ptr_sub(i64, i64)

; Function Attrs: nocallback nocreateundeforpoison nofree nosync nounwind speculatable willreturn memory(none)
declare i1 @llvm.amdgcn.is.shared(ptr) #2

; Function Attrs: nocallback nocreateundeforpoison nofree nosync nounwind speculatable willreturn memory(none)
declare i1 @llvm.amdgcn.is.private(ptr) #2

declare void @__asan_before_dynamic_init(i64)

declare void @__asan_after_dynamic_init()

declare void @__asan_register_globals(i64, i64)

declare void @__asan_unregister_globals(i64, i64)

declare void @__asan_register_image_globals(i64)

declare void @__asan_unregister_image_globals(i64)

declare void @__asan_register_elf_globals(i64, i64, i64)

declare void @__asan_unregister_elf_globals(i64, i64, i64)

declare void @__asan_init()

; Function Attrs: nounwind
define internal void @asan.module_ctor() #3 comdat {
  call void @__asan_init()
  call void @__asan_version_mismatch_check_v8()
  call void @__asan_register_elf_globals(i64 ptrtoint (ptr @___asan_globals_registered to i64), i64 ptrtoint (ptr @__start_asan_globals to i64), i64 ptrtoint (ptr @__stop_asan_globals to i64))
  ret void
}

declare void @__asan_version_mismatch_check_v8()

; Function Attrs: nounwind
define internal void @asan.module_dtor() #3 comdat {
  call void @__asan_unregister_elf_globals(i64 ptrtoint (ptr @___asan_globals_registered to i64), i64 ptrtoint (ptr @__start_asan_globals to i64), i64 ptrtoint (ptr @__stop_asan_globals to i64))
  ret void
}

attributes #0 = { nonlazybind sanitize_address uwtable "frame-pointer"="all" "target-cpu"="x86-64" }
attributes #1 = { cold noinline noreturn nonlazybind sanitize_address uwtable "frame-pointer"="all" "target-cpu"="x86-64" }
attributes #2 = { nocallback nocreateundeforpoison nofree nosync nounwind speculatable willreturn memory(none) }
attributes #3 = { nounwind }

!llvm.module.flags = !{!2, !3, !4}
!llvm.ident = !{!5}

!0 = !{ptr @alloc_7971f3465817cc18ad816e3dbdd7087a}
!1 = !{ptr @alloc_9d40747e106cbf85f7bd532d58745d14}
!2 = !{i32 8, !"PIC Level", i32 2}
!3 = !{i32 2, !"RtLibUseGOT", i32 1}
!4 = !{i32 4, !"nosanitize_address", i32 1}
!5 = !{!"rustc version 1.97.0-nightly (ad3a598ca 2026-05-03)"}
