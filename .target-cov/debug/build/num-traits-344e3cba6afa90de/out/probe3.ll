; ModuleID = 'probe3.d34051feb164cf1-cgu.0'
source_filename = "probe3.d34051feb164cf1-cgu.0"
target datalayout = "e-m:e-p270:32:32-p271:32:32-p272:64:64-i64:64-i128:128-f80:128-n8:16:32:64-S128"
target triple = "x86_64-unknown-linux-gnu"

$__covrec_233B9913D9735108u = comdat any

$__profc__RNvCs18hnD3SeibJ_6probe35probe = comdat nodeduplicate

$__llvm_profile_filename = comdat any

@__covrec_233B9913D9735108u = linkonce_odr hidden constant <{ i64, i32, i64, i64, [19 x i8] }> <{ i64 2538791125485048072, i32 19, i64 -4042619169810361159, i64 -4476405371868065735, [19 x i8] c"\01\01\00\03\01\01\01\00\0F\01\00\1A\00-\01\00/\000" }>, section "__llvm_covfun", comdat, align 8
@__llvm_coverage_mapping = private constant { { i32, i32, i32, i32 }, [108 x i8] } { { i32, i32, i32, i32 } { i32 0, i32 108, i32 0, i32 6 }, [108 x i8] c"\02rix\DA\05\C1[\0A\021\0C\05\D0?w\D3$\CE\832 \EE\E56\CD\94*\B6\92V\C1\DD{\CE\83\BD\F7\C9\A4\F0\D2\D9\AD\D41\FD\C7\C3\95E\16\88\08\B6l\1As\B4\03)\19\E8\0D}\A2\D8\A0\DAN\07\A1M\CA\F6\0Dr\AC\DB\1ES<\93&\15Y\B9}^a:\EA\1CAh\A1\EB~\B9\A1\F5v\FF\03\B9:%\82" }, section "__llvm_covmap", align 8
@__profc__RNvCs18hnD3SeibJ_6probe35probe = private global [1 x i64] zeroinitializer, section "__llvm_prf_cnts", comdat, align 8
@__profd__RNvCs18hnD3SeibJ_6probe35probe = private global { i64, i64, i64, i64, ptr, ptr, i32, [3 x i16], i32 } { i64 2538791125485048072, i64 -4042619169810361159, i64 sub (i64 ptrtoint (ptr @__profc__RNvCs18hnD3SeibJ_6probe35probe to i64), i64 ptrtoint (ptr @__profd__RNvCs18hnD3SeibJ_6probe35probe to i64)), i64 0, ptr null, ptr null, i32 1, [3 x i16] zeroinitializer, i32 0 }, section "__llvm_prf_data", comdat($__profc__RNvCs18hnD3SeibJ_6probe35probe), align 8
@__llvm_prf_nm = private constant [37 x i8] c"\1F#x\DA\8B\0F\F2+s.6\B4\C8\C8s1\0EN\CDL\F2\8A7+(\CAOJ56\05S\00\A8\E7\0A\DC", section "__llvm_prf_names", align 1
@llvm.compiler.used = appending global [1 x ptr] [ptr @__profd__RNvCs18hnD3SeibJ_6probe35probe], section "llvm.metadata"
@llvm.used = appending global [3 x ptr] [ptr @__covrec_233B9913D9735108u, ptr @__llvm_coverage_mapping, ptr @__llvm_prf_nm], section "llvm.metadata"
@__llvm_profile_filename = hidden constant [22 x i8] c"default_%m_%p.profraw\00", comdat

; probe3::probe
; Function Attrs: nonlazybind uwtable
define void @_RNvCs18hnD3SeibJ_6probe35probe() unnamed_addr #0 {
start:
  %0 = alloca [4 x i8], align 4
  %1 = atomicrmw add ptr @__profc__RNvCs18hnD3SeibJ_6probe35probe, i64 1 monotonic, align 8
  store i32 -2147483648, ptr %0, align 4
  %_0.i = load i32, ptr %0, align 4
  ret void
}

; Function Attrs: nounwind
declare void @llvm.instrprof.increment(ptr, i64, i32, i32) #1

; Function Attrs: nocallback nocreateundeforpoison nofree nosync nounwind speculatable willreturn memory(none)
declare i32 @llvm.bitreverse.i32(i32) #2

attributes #0 = { nonlazybind uwtable "probe-stack"="inline-asm" "target-cpu"="x86-64" }
attributes #1 = { nounwind }
attributes #2 = { nocallback nocreateundeforpoison nofree nosync nounwind speculatable willreturn memory(none) }

!llvm.module.flags = !{!0, !1}
!llvm.ident = !{!2}

!0 = !{i32 8, !"PIC Level", i32 2}
!1 = !{i32 2, !"RtLibUseGOT", i32 1}
!2 = !{!"rustc version 1.97.0-nightly (ad3a598ca 2026-05-03)"}
