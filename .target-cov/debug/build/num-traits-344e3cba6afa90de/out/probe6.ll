; ModuleID = 'probe6.1efc74f879027ab-cgu.0'
source_filename = "probe6.1efc74f879027ab-cgu.0"
target datalayout = "e-m:e-p270:32:32-p271:32:32-p272:64:64-i64:64-i128:128-f80:128-n8:16:32:64-S128"
target triple = "x86_64-unknown-linux-gnu"

$__covrec_282641CFE5E8C88Eu = comdat any

$__profc__RNvCsaj8uWmBVSV_6probe65probe = comdat nodeduplicate

$__llvm_profile_filename = comdat any

@alloc_7971f3465817cc18ad816e3dbdd7087a = private unnamed_addr constant [7 x i8] c"<anon>\00", align 1
@alloc_9d40747e106cbf85f7bd532d58745d14 = private unnamed_addr constant <{ ptr, [16 x i8] }> <{ ptr @alloc_7971f3465817cc18ad816e3dbdd7087a, [16 x i8] c"\06\00\00\00\00\00\00\00\01\00\00\00\1F\00\00\00" }>, align 8
@__covrec_282641CFE5E8C88Eu = linkonce_odr hidden constant <{ i64, i32, i64, i64, [19 x i8] }> <{ i64 2893072171803396238, i32 19, i64 2433156683569675053, i64 -4476405371868065735, [19 x i8] c"\01\01\00\03\01\01\01\00\0F\01\00\1A\00/\01\001\002" }>, section "__llvm_covfun", comdat, align 8
@__llvm_coverage_mapping = private constant { { i32, i32, i32, i32 }, [108 x i8] } { { i32, i32, i32, i32 } { i32 0, i32 108, i32 0, i32 6 }, [108 x i8] c"\02rix\DA\05\C1[\0A\021\0C\05\D0?w\D3$\CE\832 \EE\E56\CD\94*\B6\92V\C1\DD{\CE\83\BD\F7\C9\A4\F0\D2\D9\AD\D41\FD\C7\C3\95E\16\88\08\B6l\1As\B4\03)\19\E8\0D}\A2\D8\A0\DAN\07\A1M\CA\F6\0Dr\AC\DB\1ES<\93&\15Y\B9}^a:\EA\1CAh\A1\EB~\B9\A1\F5v\FF\03\B9:%\82" }, section "__llvm_covmap", align 8
@__profc__RNvCsaj8uWmBVSV_6probe65probe = private global [1 x i64] zeroinitializer, section "__llvm_prf_cnts", comdat, align 8
@__profd__RNvCsaj8uWmBVSV_6probe65probe = private global { i64, i64, i64, i64, ptr, ptr, i32, [3 x i16], i32 } { i64 2893072171803396238, i64 2433156683569675053, i64 sub (i64 ptrtoint (ptr @__profc__RNvCsaj8uWmBVSV_6probe65probe to i64), i64 ptrtoint (ptr @__profd__RNvCsaj8uWmBVSV_6probe65probe to i64)), i64 0, ptr null, ptr null, i32 1, [3 x i16] zeroinitializer, i32 0 }, section "__llvm_prf_data", comdat($__profc__RNvCsaj8uWmBVSV_6probe65probe), align 8
@__llvm_prf_nm = private constant [36 x i8] c"\1E\22x\DA\8B\0F\F2+s.N\CC\B2(\0D\CFu\0A\0B\0E\8B7+(\CAOJ53\05S\00\A67\0A\D9", section "__llvm_prf_names", align 1
@llvm.compiler.used = appending global [1 x ptr] [ptr @__profd__RNvCsaj8uWmBVSV_6probe65probe], section "llvm.metadata"
@llvm.used = appending global [3 x ptr] [ptr @__covrec_282641CFE5E8C88Eu, ptr @__llvm_coverage_mapping, ptr @__llvm_prf_nm], section "llvm.metadata"
@__llvm_profile_filename = hidden constant [22 x i8] c"default_%m_%p.profraw\00", comdat

; probe6::probe
; Function Attrs: nonlazybind uwtable
define void @_RNvCsaj8uWmBVSV_6probe65probe() unnamed_addr #0 {
start:
  %0 = atomicrmw add ptr @__profc__RNvCsaj8uWmBVSV_6probe65probe, i64 1 monotonic, align 8
  ret void
}

; Function Attrs: nounwind
declare void @llvm.instrprof.increment(ptr, i64, i32, i32) #1

; core::panicking::panic_const::panic_const_div_by_zero
; Function Attrs: cold noinline noreturn nonlazybind uwtable
declare void @_RNvNtNtCsanpdEcSfypT_4core9panicking11panic_const23panic_const_div_by_zero(ptr align 8) unnamed_addr #2

attributes #0 = { nonlazybind uwtable "probe-stack"="inline-asm" "target-cpu"="x86-64" }
attributes #1 = { nounwind }
attributes #2 = { cold noinline noreturn nonlazybind uwtable "probe-stack"="inline-asm" "target-cpu"="x86-64" }

!llvm.module.flags = !{!0, !1}
!llvm.ident = !{!2}

!0 = !{i32 8, !"PIC Level", i32 2}
!1 = !{i32 2, !"RtLibUseGOT", i32 1}
!2 = !{!"rustc version 1.97.0-nightly (ad3a598ca 2026-05-03)"}
