; ModuleID = 'probe5.e1d0dfe292446c30-cgu.0'
source_filename = "probe5.e1d0dfe292446c30-cgu.0"
target datalayout = "e-m:e-p270:32:32-p271:32:32-p272:64:64-i64:64-i128:128-f80:128-n8:16:32:64-S128"
target triple = "x86_64-unknown-linux-gnu"

$__covrec_8BBA8AF0891B70E3u = comdat any

$__profc__RNvCsjo0Ni8tRVpk_6probe55probe = comdat nodeduplicate

$__llvm_profile_filename = comdat any

@alloc_2e38410fced2c310c68bdf2d45d0c3bd = private unnamed_addr constant [4 x i8] c"\02\00\00\00", align 4
@alloc_7971f3465817cc18ad816e3dbdd7087a = private unnamed_addr constant [7 x i8] c"<anon>\00", align 1
@alloc_1d9e4a30726589abce1472f3c301cfd2 = private unnamed_addr constant <{ ptr, [16 x i8] }> <{ ptr @alloc_7971f3465817cc18ad816e3dbdd7087a, [16 x i8] c"\06\00\00\00\00\00\00\00\01\00\00\00+\00\00\00" }>, align 8
@__covrec_8BBA8AF0891B70E3u = linkonce_odr hidden constant <{ i64, i32, i64, i64, [29 x i8] }> <{ i64 -8378231391072325405, i32 29, i64 2110050596429239856, i64 -4476405371868065735, [29 x i8] c"\01\01\00\05\01\01\01\00\0F\01\00\1A\005\01\00 \00%\01\00(\00)\01\007\008" }>, section "__llvm_covfun", comdat, align 8
@__llvm_coverage_mapping = private constant { { i32, i32, i32, i32 }, [108 x i8] } { { i32, i32, i32, i32 } { i32 0, i32 108, i32 0, i32 6 }, [108 x i8] c"\02rix\DA\05\C1[\0A\021\0C\05\D0?w\D3$\CE\832 \EE\E56\CD\94*\B6\92V\C1\DD{\CE\83\BD\F7\C9\A4\F0\D2\D9\AD\D41\FD\C7\C3\95E\16\88\08\B6l\1As\B4\03)\19\E8\0D}\A2\D8\A0\DAN\07\A1M\CA\F6\0Dr\AC\DB\1ES<\93&\15Y\B9}^a:\EA\1CAh\A1\EB~\B9\A1\F5v\FF\03\B9:%\82" }, section "__llvm_covmap", align 8
@__profc__RNvCsjo0Ni8tRVpk_6probe55probe = private global [1 x i64] zeroinitializer, section "__llvm_prf_cnts", comdat, align 8
@__profd__RNvCsjo0Ni8tRVpk_6probe55probe = private global { i64, i64, i64, i64, ptr, ptr, i32, [3 x i16], i32 } { i64 -8378231391072325405, i64 2110050596429239856, i64 sub (i64 ptrtoint (ptr @__profc__RNvCsjo0Ni8tRVpk_6probe55probe to i64), i64 ptrtoint (ptr @__profd__RNvCsjo0Ni8tRVpk_6probe55probe to i64)), i64 0, ptr null, ptr null, i32 1, [3 x i16] zeroinitializer, i32 0 }, section "__llvm_prf_data", comdat($__profc__RNvCsjo0Ni8tRVpk_6probe55probe), align 8
@__llvm_prf_nm = private constant [37 x i8] c"\1F#x\DA\8B\0F\F2+s.\CE\CA7\F0\CB\B4(\09\0A+\C8\8E7+(\CAOJ55\05S\00\B1\FC\0BJ", section "__llvm_prf_names", align 1
@llvm.compiler.used = appending global [1 x ptr] [ptr @__profd__RNvCsjo0Ni8tRVpk_6probe55probe], section "llvm.metadata"
@llvm.used = appending global [3 x ptr] [ptr @__covrec_8BBA8AF0891B70E3u, ptr @__llvm_coverage_mapping, ptr @__llvm_prf_nm], section "llvm.metadata"
@__llvm_profile_filename = hidden constant [22 x i8] c"default_%m_%p.profraw\00", comdat

; probe5::probe
; Function Attrs: nonlazybind uwtable
define void @_RNvCsjo0Ni8tRVpk_6probe55probe() unnamed_addr #0 {
start:
  %x = alloca [4 x i8], align 4
  %0 = atomicrmw add ptr @__profc__RNvCsjo0Ni8tRVpk_6probe55probe, i64 1 monotonic, align 8
  store i32 1, ptr %x, align 4
; call <i32 as core::ops::arith::AddAssign<&i32>>::add_assign
  call void @_RNvXs5R_NtNtCsanpdEcSfypT_4core3ops5arithlINtB6_9AddAssignRlE10add_assignCsjo0Ni8tRVpk_6probe5(ptr align 4 %x, ptr align 4 @alloc_2e38410fced2c310c68bdf2d45d0c3bd, ptr align 8 @alloc_1d9e4a30726589abce1472f3c301cfd2) #5
  ret void
}

; <i32 as core::ops::arith::AddAssign<&i32>>::add_assign
; Function Attrs: inlinehint nonlazybind uwtable
define internal void @_RNvXs5R_NtNtCsanpdEcSfypT_4core3ops5arithlINtB6_9AddAssignRlE10add_assignCsjo0Ni8tRVpk_6probe5(ptr align 4 %self, ptr align 4 %other, ptr align 8 %0) unnamed_addr #1 {
start:
  %other1 = load i32, ptr %other, align 4
  %1 = load i32, ptr %self, align 4
  %2 = call { i32, i1 } @llvm.sadd.with.overflow.i32(i32 %1, i32 %other1)
  %_4.0 = extractvalue { i32, i1 } %2, 0
  %_4.1 = extractvalue { i32, i1 } %2, 1
  br i1 %_4.1, label %panic, label %bb1

bb1:                                              ; preds = %start
  store i32 %_4.0, ptr %self, align 4
  ret void

panic:                                            ; preds = %start
; call core::panicking::panic_const::panic_const_add_overflow
  call void @_RNvNtNtCsanpdEcSfypT_4core9panicking11panic_const24panic_const_add_overflow(ptr align 8 %0) #6
  unreachable
}

; Function Attrs: nounwind
declare void @llvm.instrprof.increment(ptr, i64, i32, i32) #2

; Function Attrs: nocallback nocreateundeforpoison nofree nosync nounwind speculatable willreturn memory(none)
declare { i32, i1 } @llvm.sadd.with.overflow.i32(i32, i32) #3

; core::panicking::panic_const::panic_const_add_overflow
; Function Attrs: cold noinline noreturn nonlazybind uwtable
declare void @_RNvNtNtCsanpdEcSfypT_4core9panicking11panic_const24panic_const_add_overflow(ptr align 8) unnamed_addr #4

attributes #0 = { nonlazybind uwtable "probe-stack"="inline-asm" "target-cpu"="x86-64" }
attributes #1 = { inlinehint nonlazybind uwtable "probe-stack"="inline-asm" "target-cpu"="x86-64" }
attributes #2 = { nounwind }
attributes #3 = { nocallback nocreateundeforpoison nofree nosync nounwind speculatable willreturn memory(none) }
attributes #4 = { cold noinline noreturn nonlazybind uwtable "probe-stack"="inline-asm" "target-cpu"="x86-64" }
attributes #5 = { inlinehint }
attributes #6 = { noinline noreturn }

!llvm.module.flags = !{!0, !1}
!llvm.ident = !{!2}

!0 = !{i32 8, !"PIC Level", i32 2}
!1 = !{i32 2, !"RtLibUseGOT", i32 1}
!2 = !{!"rustc version 1.97.0-nightly (ad3a598ca 2026-05-03)"}
