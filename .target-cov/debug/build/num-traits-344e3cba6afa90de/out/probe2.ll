; ModuleID = 'probe2.84920879a4b75f91-cgu.0'
source_filename = "probe2.84920879a4b75f91-cgu.0"
target datalayout = "e-m:e-p270:32:32-p271:32:32-p272:64:64-i64:64-i128:128-f80:128-n8:16:32:64-S128"
target triple = "x86_64-unknown-linux-gnu"

$__covrec_7D6CB7D6FB70E715u = comdat any

$__profc__RNvCsbnFuZ5XgHgP_6probe25probe = comdat nodeduplicate

$__llvm_profile_filename = comdat any

@__covrec_7D6CB7D6FB70E715u = linkonce_odr hidden constant <{ i64, i32, i64, i64, [19 x i8] }> <{ i64 9037800686195107605, i32 19, i64 1772818725164864595, i64 -4476405371868065735, [19 x i8] c"\01\01\00\03\01\01\01\00\0F\01\00\1A\00C\01\00E\00F" }>, section "__llvm_covfun", comdat, align 8
@__llvm_coverage_mapping = private constant { { i32, i32, i32, i32 }, [108 x i8] } { { i32, i32, i32, i32 } { i32 0, i32 108, i32 0, i32 6 }, [108 x i8] c"\02rix\DA\05\C1[\0A\021\0C\05\D0?w\D3$\CE\832 \EE\E56\CD\94*\B6\92V\C1\DD{\CE\83\BD\F7\C9\A4\F0\D2\D9\AD\D41\FD\C7\C3\95E\16\88\08\B6l\1As\B4\03)\19\E8\0D}\A2\D8\A0\DAN\07\A1M\CA\F6\0Dr\AC\DB\1ES<\93&\15Y\B9}^a:\EA\1CAh\A1\EB~\B9\A1\F5v\FF\03\B9:%\82" }, section "__llvm_covmap", align 8
@__profc__RNvCsbnFuZ5XgHgP_6probe25probe = private global [1 x i64] zeroinitializer, section "__llvm_prf_cnts", comdat, align 8
@__profd__RNvCsbnFuZ5XgHgP_6probe25probe = private global { i64, i64, i64, i64, ptr, ptr, i32, [3 x i16], i32 } { i64 9037800686195107605, i64 1772818725164864595, i64 sub (i64 ptrtoint (ptr @__profc__RNvCsbnFuZ5XgHgP_6probe25probe to i64), i64 ptrtoint (ptr @__profd__RNvCsbnFuZ5XgHgP_6probe25probe to i64)), i64 0, ptr null, ptr null, i32 1, [3 x i16] zeroinitializer, i32 0 }, section "__llvm_prf_data", comdat($__profc__RNvCsbnFuZ5XgHgP_6probe25probe), align 8
@__llvm_prf_nm = private constant [37 x i8] c"\1F#x\DA\8B\0F\F2+s.N\CAs+\8D2\8DH\F7H\0F\887+(\CAOJ52\05S\00\B17\0B0", section "__llvm_prf_names", align 1
@llvm.compiler.used = appending global [1 x ptr] [ptr @__profd__RNvCsbnFuZ5XgHgP_6probe25probe], section "llvm.metadata"
@llvm.used = appending global [3 x ptr] [ptr @__covrec_7D6CB7D6FB70E715u, ptr @__llvm_coverage_mapping, ptr @__llvm_prf_nm], section "llvm.metadata"
@__llvm_profile_filename = hidden constant [22 x i8] c"default_%m_%p.profraw\00", comdat

; <f64>::to_int_unchecked::<i32>
; Function Attrs: inlinehint nonlazybind uwtable
define i32 @_RINvMNtCsanpdEcSfypT_4core3f64d16to_int_uncheckedlECsbnFuZ5XgHgP_6probe2(double %self) unnamed_addr #0 {
start:
; call <f64 as core::convert::num::FloatToInt<i32>>::to_int_unchecked
  %_0 = call i32 @_RNvXsx_NtNtCsanpdEcSfypT_4core7convert3numdINtB5_10FloatToIntlE16to_int_uncheckedCsbnFuZ5XgHgP_6probe2(double %self) #3
  ret i32 %_0
}

; probe2::probe
; Function Attrs: nonlazybind uwtable
define void @_RNvCsbnFuZ5XgHgP_6probe25probe() unnamed_addr #1 {
start:
  %0 = atomicrmw add ptr @__profc__RNvCsbnFuZ5XgHgP_6probe25probe, i64 1 monotonic, align 8
; call <f64>::to_int_unchecked::<i32>
  %_1 = call i32 @_RINvMNtCsanpdEcSfypT_4core3f64d16to_int_uncheckedlECsbnFuZ5XgHgP_6probe2(double 1.000000e+00) #3
  ret void
}

; <f64 as core::convert::num::FloatToInt<i32>>::to_int_unchecked
; Function Attrs: inlinehint nonlazybind uwtable
define internal i32 @_RNvXsx_NtNtCsanpdEcSfypT_4core7convert3numdINtB5_10FloatToIntlE16to_int_uncheckedCsbnFuZ5XgHgP_6probe2(double %self) unnamed_addr #0 {
start:
  %0 = alloca [4 x i8], align 4
  %1 = fptosi double %self to i32
  store i32 %1, ptr %0, align 4
  %_0 = load i32, ptr %0, align 4
  ret i32 %_0
}

; Function Attrs: nounwind
declare void @llvm.instrprof.increment(ptr, i64, i32, i32) #2

attributes #0 = { inlinehint nonlazybind uwtable "probe-stack"="inline-asm" "target-cpu"="x86-64" }
attributes #1 = { nonlazybind uwtable "probe-stack"="inline-asm" "target-cpu"="x86-64" }
attributes #2 = { nounwind }
attributes #3 = { inlinehint }

!llvm.module.flags = !{!0, !1}
!llvm.ident = !{!2}

!0 = !{i32 8, !"PIC Level", i32 2}
!1 = !{i32 2, !"RtLibUseGOT", i32 1}
!2 = !{!"rustc version 1.97.0-nightly (ad3a598ca 2026-05-03)"}
